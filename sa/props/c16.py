"""C16 - start/end/duration of events and todos obey RFC rules after any edit
history.

MACHINE: the presence/kind state machine of DTSTART, DTEND|DUE, DURATION is
extracted by abstract interpretation (E7) of the real setter/deleter ASTs
(descriptor closures included) and explored to closure from the empty
component; invariant: never both the end property and DURATION; rejected
arguments leave the state unchanged.
DT-END: decision tables of start/end/duration for every stored shape
(absent, date, date-time, duplicated list, untyped text) against the table
written from the statement; Event and Todo agree up to DTEND<->DUE.
"""
import ast
import itertools

from ..core import AnalysisError
from ..absint import (Interp, DT, TD, Obj, ClassVal, AbsRaise, Unsupported,
                      term_str)

DATE_KINDS = ["date", "naive", "utc", "zoned"]


def mk_dt(kind, sym):
    return DT(kind, None, {sym: 1}, "Europe/Berlin" if kind == "zoned" else None)


def mk_td(secs, sym="DUR"):
    """secs: False -> whole days, True -> less than a day, 'daystime' -> days
    plus a time-of-day part."""
    mag = "daystime" if secs == "daystime" else ("subday" if secs else "days")
    return TD(term={sym: 1}, mag=mag)


def kind_of(it, v):
    """Abstract description of a stored property value."""
    if v is None:
        return "absent"
    if isinstance(v, list):
        return "list"
    if isinstance(v, Obj):
        inner = v.attrs.get("dt", v.attrs.get("td"))
        if isinstance(inner, DT):
            return inner.kind
        if isinstance(inner, TD):
            return {"days": "days", "subday": "secs", "daystime": "daystime",
                    "zero": "zero"}[inner.mag]
        if v.strval is not None:
            return "text"
    return "other"


def state_of(it, comp, endp):
    return (kind_of(it, comp.items.get("DTSTART")), kind_of(it, comp.items.get(endp)),
            kind_of(it, comp.items.get("DURATION")))


def operations(endp):
    ops = []
    for attr in ("start", "DTSTART"):
        for k in DATE_KINDS:
            ops.append((f"{attr} = <{k}>", "set", attr, ("dt", k), "DTSTART"))
        ops.append((f"{attr} = None", "set", attr, ("none",), "DTSTART"))
        ops.append((f"{attr} = 5", "set", attr, ("bad",), "DTSTART"))
    for attr in ("end", endp):
        for k in DATE_KINDS:
            ops.append((f"{attr} = <{k}>", "set", attr, ("dt", k), endp))
        ops.append((f"{attr} = None", "set", attr, ("none",), endp))
        ops.append((f"{attr} = 5", "set", attr, ("bad",), endp))
        # the repair idiom `todo.end = todo.DUE`: the value already stored is assigned again
        ops.append((f"{attr} = <the stored {endp} value>", "set", attr, ("same",), endp))
    ops.append(("DURATION = <days>", "set", "DURATION", ("td", False), "DURATION"))
    ops.append(("DURATION = <secs>", "set", "DURATION", ("td", True), "DURATION"))
    ops.append(("DURATION = <days+time>", "set", "DURATION", ("td", "daystime"), "DURATION"))
    ops.append(("DURATION = None", "set", "DURATION", ("none",), "DURATION"))
    ops.append(("DURATION = <the stored DURATION value>", "set", "DURATION", ("same",), "DURATION"))
    ops.append(("DURATION = 5", "set", "DURATION", ("bad",), "DURATION"))
    for attr, key in (("DTSTART", "DTSTART"), (endp, endp), ("DURATION", "DURATION")):
        ops.append((f"del {attr}", "del", attr, None, key))
    for attr in ("start", "end"):
        ops.append((f"del {attr}", "del", attr, None, None))
    return ops


def arg_value(spec):
    if spec[0] == "dt":
        return mk_dt(spec[1], "X")
    if spec[0] == "td":
        return mk_td(spec[1], "XD")
    if spec[0] == "none":
        return None
    return 5


def apply_op(it, comp, op):
    name, how, attr, spec, key = op
    try:
        if how == "set" and spec[0] == "same":
            v = comp.items.get(key)
            if not isinstance(v, Obj):
                return "SKIP"
            it.setattr(comp, attr, v.attrs.get("dt", v.attrs.get("td")))
        elif how == "set":
            it.setattr(comp, attr, arg_value(spec))
        else:
            it.delattr(comp, attr)
        return None
    except AbsRaise as e:
        return e.cls_name


def run(ctx):
    m = ctx.model
    ctx.explanation = (
        "abstract presence/kind state machine extracted from the real "
        "descriptor setter/deleter ASTs by the checker's own interpreter and "
        "explored to closure; decision tables of the start/end/duration "
        "getters over all stored shapes vs the table written from the property "
        "statement.")
    ctx.assume("CaselessDict storage semantics as decided in C17 (pop with default None)")
    total_states = total_trans = 0
    tables = {}
    for cq, endp in (("cal.Event", "DTEND"), ("cal.Todo", "DUE")):
        ci = m.cls(cq)
        it = Interp(m)
        ops = operations(endp)
        # every combination of stored kinds is a state (they arise from add()/
        # item assignment/parsing); each is built by direct injection
        kinds = DATE_KINDS if ctx.thorough else ["date", "naive", "zoned"]
        dkinds = ["days", "secs", "daystime"]
        all_states = [(a_, b_, c_) for a_ in ["absent"] + kinds for b_ in ["absent"] + kinds
                      for c_ in ["absent"] + dkinds]
        vddd = ClassVal(m.cls("prop.vDDDTypes"))
        vdur = ClassVal(m.cls("prop.vDuration"))

        def build(st):
            comp = it.call(ClassVal(ci), [], {})
            for key, kd, sym in (("DTSTART", st[0], "S"), (endp, st[1], "E")):
                if kd != "absent":
                    comp.items[key] = it.call(vddd, [mk_dt(kd, sym)], {})
            if st[2] != "absent":
                comp.items["DURATION"] = it.call(
                    vdur, [mk_td({"days": False, "secs": True, "daystime": "daystime"}[st[2]], "D")], {})
            return comp
        ops = [o for o in ops if o[3] is None or o[3][0] != "dt" or o[3][1] in kinds]
        succ = {}
        ntrans = 0
        purity_bad = []
        for st in all_states:
            for op in ops:
                it.steps = 0
                comp = build(st)
                if state_of(it, comp, endp) != st:
                    raise AnalysisError(f"{cq}: injected state {st} reads back as {state_of(it, comp, endp)}")
                before = st
                try:
                    exc = apply_op(it, comp, op)
                except Unsupported as e:
                    raise AnalysisError(f"{cq}: `{op[0]}` leaves the abstract interface: {e}")
                if exc == "SKIP":       # nothing stored to assign again
                    continue
                after = state_of(it, comp, endp)
                ntrans += 1
                succ.setdefault(st, set()).add(after)
                name, how, attr, spec, key = op
                # reading start/end/duration is pure: the same edit after a read gives a
                # component that answers the same (a cached answer must not survive an edit)
                try:
                    comp_r = build(st)
                    for a_ in ("start", "end", "duration"):
                        outcome(it, comp_r, a_)
                    exc_r = apply_op(it, comp_r, op)
                    seen_plain = tuple(outcome(it, comp, a_) for a_ in ("start", "end", "duration"))
                    seen_read = tuple(outcome(it, comp_r, a_) for a_ in ("start", "end", "duration"))
                except Unsupported as e:
                    raise AnalysisError(f"{cq}: `{op[0]}` after reads leaves the abstract interface: {e}")
                if (exc_r, state_of(it, comp_r, endp), seen_read) != (exc, after, seen_plain):
                    purity_bad.append((before, name, seen_plain, seen_read))
                where = f"{cq} in state (DTSTART, {endp}, DURATION) = {before} then `{name}`"
                if how == "set" and spec[0] == "bad":
                    if not (exc == "TypeError" and after == before):
                        ctx.fail("C16/MACHINE", f"{ci.name} rejects wrong type: {name}",
                                 f"{where}: expected TypeError and unchanged state, got "
                                 f"{exc} and {after}", ci.loc(), witness={"state": before, "op": name})
                elif how == "del" and key is None:
                    if not (exc == "AttributeError" and after == before):
                        ctx.fail("C16/MACHINE", f"{ci.name} {name}",
                                 f"{where}: expected AttributeError (no deleter) and "
                                 f"unchanged state, got {exc} and {after}", ci.loc())
                else:
                    idx = {"DTSTART": 0, endp: 1, "DURATION": 2}[key]
                    exp = list(before)
                    if how == "del" or spec[0] == "none":
                        exp[idx] = "absent"
                    else:
                        exp[idx] = before[idx] if spec[0] == "same" else spec[1] if spec[0] == "dt" else (
                            "daystime" if spec[1] == "daystime" else "secs" if spec[1] else "days")
                        if idx == 1:
                            exp[2] = "absent"
                        if idx == 2:
                            exp[1] = "absent"
                    if exc is not None or tuple(exp) != after:
                        ctx.fail("C16/MACHINE", f"{ci.name} effect of {name}",
                                 f"{where}: expected state {tuple(exp)}, got {after}"
                                 f"{' raising ' + exc if exc else ''} (setting the end "
                                 f"property must remove DURATION and vice versa, from "
                                 f"every stored state)", ci.loc(),
                                 witness={"state": before, "op": name})
        ctx.check(not purity_bad, "C16/MACHINE", f"{ci.name}: reads do not change what later reads return",
                  f"{cq} in state {purity_bad[0][0] if purity_bad else None} then `{purity_bad[0][1] if purity_bad else None}`: "
                  f"(start, end, duration) = {purity_bad[0][2] if purity_bad else None}, but "
                  f"{purity_bad[0][3] if purity_bad else None} when start/end/duration had been read before the "
                  f"edit: an answer computed before the edit is still returned after it "
                  f"[{len(purity_bad)} (state, edit) pairs]", ci.loc(),
                  witness={"state": purity_bad[0][0], "op": purity_bad[0][1]} if purity_bad else None,
                  detail=f"{ntrans} (state, edit) pairs, each with and without earlier reads")
        # reachability from the empty component through setters/deleters only
        paths = {("absent", "absent", "absent")}
        frontier = list(paths)
        while frontier:
            x = frontier.pop()
            for y in succ.get(x, ()):
                if y not in paths:
                    paths.add(y)
                    frontier.append(y)
        both = [x for x in paths if x[1] != "absent" and x[2] != "absent"]
        ctx.check(not both, "C16/MACHINE", f"{ci.name} exclusivity invariant",
                  f"{cq}: states with both {endp} and DURATION are reachable from the "
                  f"empty component by setters/deleters: {both[:3]}", ci.loc(),
                  detail=f"{len(paths)} setter-reachable states, none with both")

        total_trans += ntrans
        ctx.ok("C16/MACHINE", f"{ci.name} machine explored", ci.loc(),
               f"{len(all_states)} stored states x {len(ops)} operations = "
               f"{ntrans} transitions examined; {len(paths)} states reachable from "
               f"the empty component")
        total_states += len(all_states)
        ctx.extra[f"{ci.name}_setter_reachable"] = sorted(paths)
        # ---- DT-END --------------------------------------------------------
        tables[ci.name] = getter_table(ctx, it, ci, endp)
    ctx.extra.update({"states": total_states, "transitions": total_trans,
                      "traces_validated_against_impl": 0, "exhaustive": True,
                      "interface_ops": sorted(it.ops_seen)})
    # sibling agreement
    ev, td = tables.get("Event"), tables.get("Todo")
    diff = [k for k in ev if ev[k] != td.get(k)]
    ctx.check(not diff, "C16/DT-END", "Event and Todo tables agree",
              f"Event and Todo differ for stored shapes {diff[:3]}: "
              f"{[(ev[k], td.get(k)) for k in diff[:2]]}", None,
              detail=f"{len(ev)} rows equal up to DTEND<->DUE")
    journal_table(ctx)
    _pytz_table(ctx)
    _signed_durations(ctx)
    _zoned_durations(ctx)
    ctx.floor("C16/DT-END", 60)


SHAPES_DT = ["absent", "date", "datetime", "list", "text", "date-sub", "datetime-sub"]
SHAPES_DUR = ["absent", "days", "secs", "daystime", "zero", "list", "text", "days-parsed"]


def stored(it, m, shape, sym):
    vddd = ClassVal(m.cls("prop.vDDDTypes"))
    vdur = ClassVal(m.cls("prop.vDuration"))
    vtext = ClassVal(m.cls("prop.vText"))
    if shape == "absent":
        return None
    if shape == "date":
        return it.call(vddd, [mk_dt("date", sym)], {})
    if shape == "datetime":
        return it.call(vddd, [mk_dt("naive", sym)], {})
    if shape in ("date-sub", "datetime-sub"):
        # an instance of a subclass of date / datetime (freezegun, pendulum, application
        # types): a date is whatever isinstance says, not what type() is
        d = mk_dt("date" if shape == "date-sub" else "naive", sym)
        d.sub = True
        return it.call(vddd, [d], {})
    if shape == "days":
        return it.call(vdur, [mk_td(False, sym)], {})
    if shape == "secs":
        return it.call(vdur, [mk_td(True, sym)], {})
    if shape == "daystime":
        return it.call(vdur, [mk_td("daystime", sym)], {})
    if shape == "zero":          # DURATION:P0D / PT0S - present, of length zero
        return it.call(vdur, [TD(term={sym: 1}, mag="zero")], {})
    if shape == "days-parsed":       # as produced by from_ical: vDDDTypes(timedelta)
        return it.call(vddd, [mk_td(False, sym)], {})
    if shape == "list":
        return [stored(it, m, "date" if sym != "DUR" else "days", sym),
                stored(it, m, "date" if sym != "DUR" else "days", sym)]
    if shape == "text":
        return it.call(vtext, ["20200101"], {})
    raise AnalysisError(shape)


def oracle(s, e, d):
    """Expected (start, end, duration) outcomes from the property statement."""
    s, e = ({"date-sub": "date", "datetime-sub": "datetime"}.get(x, x) for x in (s, e))
    bad_shape = any(x in ("list", "text") for x in (s, e, d))
    dd = "days" if d in ("days-parsed", "zero") else d
    invalid = bad_shape or (e != "absent" and dd != "absent") or \
        (s == "date" and dd in ("secs", "daystime")) or \
        (s != "absent" and e != "absent" and (s == "date") != (e == "date"))
    if invalid:
        return ("!InvalidCalendar",) * 3
    start = "START" if s != "absent" else "!IncompleteComponent"
    if e != "absent":
        end = "END"
    elif dd != "absent":
        end = "DUR + START" if s != "absent" else "!IncompleteComponent"
    elif s == "absent":
        end = "!IncompleteComponent"
    elif s == "date":
        end = "START + day"
    else:
        end = "START"
    if end.startswith("!"):
        dur = end
    elif start.startswith("!"):
        dur = start
    else:
        dur = {"END": "END + -1*START", "DUR + START": "DUR", "START + day": "day",
               "START": "0"}[end]
    return start, end, dur


def outcome(it, comp, attr):
    try:
        v = it.getattr(comp, attr)
    except AbsRaise as ex:
        return "!" + ex.cls_name
    if isinstance(v, (DT, TD)):
        return term_str(v.term)
    return repr(v)


def getter_table(ctx, it, ci, endp):
    m = ctx.model
    table = {}
    for s, e, d in itertools.product(SHAPES_DT, SHAPES_DT, SHAPES_DUR):
        comp = it.call(ClassVal(ci), [], {})
        for key, shape, sym in (("DTSTART", s, "START"), (endp, e, "END"), ("DURATION", d, "DUR")):
            v = stored(it, m, shape, sym)
            if v is not None:
                comp.items[key] = v
        try:
            got = tuple(outcome(it, comp, a) for a in ("start", "end", "duration"))
        except Unsupported as ex:
            raise AnalysisError(f"{ci.name} getters leave the abstract interface for "
                                f"({s},{e},{d}): {ex}")
        exp = oracle(s, e, d)
        table[(s, e, d)] = got
        ctx.check(got == exp, "C16/DT-END", f"{ci.name} DTSTART={s} {endp}={e} DURATION={d}",
                  f"{ci.name} with DTSTART {s}, {endp} {e}, DURATION {d}: "
                  f"(start, end, duration) = {got}, expected {exp}", ci.loc(),
                  detail=" | ".join(got))
    return table


def _zoned_durations(ctx):
    """A zoned DTSTART plus DURATION under the zoneinfo provider: the end is the start's wall
    clock advanced by DURATION (RFC 5545: days and weeks are nominal), not the instant advanced
    on the UTC line and converted back."""
    m = ctx.model
    it = Interp(m)
    vddd = ClassVal(m.cls("prop.vDDDTypes"))
    for cq in ("cal.Event", "cal.Todo"):
        ci = m.cls(cq)
        for dshape in ("days", "secs", "daystime"):
            comp = it.call(ClassVal(ci), [], {})
            comp.items["DTSTART"] = it.call(vddd, [DT("zoned", 1, {"START": 1}, "Europe/Berlin")], {})
            comp.items["DURATION"] = stored(it, m, dshape, "DUR")
            try:
                v = it.getattr(comp, "end")
            except AbsRaise as ex:
                ctx.fail("C16/DT-END", f"[zoneinfo] {ci.name} zoned DTSTART + DURATION={dshape}",
                         f"end raises {ex.cls_name}", ci.loc())
                continue
            except Unsupported as ex:
                raise AnalysisError(f"[zoneinfo] {ci.name}.end leaves the abstract interface: {ex}")
            good = isinstance(v, DT) and term_str(v.term) == "DUR + START" and \
                v.tag not in ("elapsed-arith", "instant-moved", "converted")
            ctx.check(good, "C16/DT-END", f"[zoneinfo] {ci.name} zoned DTSTART + DURATION={dshape}",
                      f"end = {v!r} (tag {getattr(v, 'tag', None)}): the end must be the wall clock of the start "
                      f"advanced by DURATION; it was computed on the UTC line and converted back, which is "
                      f"off by the DST change when one lies in between (end - start != DURATION)",
                      ci.loc(), detail="DUR + START (wall-clock)")


def _signed_durations(ctx):
    """A DURATION of negative or zero length: either refused with the documented error, or
    end = start + DURATION and duration = DURATION exactly (never a silently 'repaired' end)."""
    m = ctx.model
    it = Interp(m)
    vddd = ClassVal(m.cls("prop.vDDDTypes"))
    vdur = ClassVal(m.cls("prop.vDuration"))
    for cq, endp in (("cal.Event", "DTEND"), ("cal.Todo", "DUE")):
        ci = m.cls(cq)
        for skind, secs in (("naive", -3600), ("naive", -90000), ("date", -86400), ("naive", 0), ("date", 0),
                            ("utc", -60)):
            comp = it.call(ClassVal(ci), [], {})
            comp.items["DTSTART"] = it.call(vddd, [DT(skind, 10 ** 9, {"START": 1}, None)], {})
            comp.items["DURATION"] = it.call(vdur, [TD(secs=secs, term={"second": secs} if secs else {})], {})
            try:
                got = tuple(outcome(it, comp, a) for a in ("start", "end", "duration"))
            except Unsupported as ex:
                raise AnalysisError(f"{ci.name} getters leave the abstract interface for DURATION "
                                    f"of {secs} s: {ex}")
            want_end = term_str({"START": 1, **({"second": secs} if secs else {})})
            want_dur = term_str({"second": secs} if secs else {})
            ok = got == ("START", want_end, want_dur) or \
                (got[1] == "!InvalidCalendar" and got[2] == "!InvalidCalendar")
            ctx.check(ok, "C16/DT-END", f"{ci.name} <{skind}> DTSTART + DURATION of {secs} s",
                      f"{ci.name} with a {skind} DTSTART and DURATION = {secs} s: (start, end, duration) = "
                      f"{got}; expected end = start + DURATION ({want_end}) and duration = DURATION "
                      f"({want_dur}), or the invalid-calendar error", ci.loc(), detail=" | ".join(got))


def _pytz_table(ctx):
    """The same getters under the pytz provider model with a zoned start: pytz keeps the
    old offset after arithmetic (instant right, wall clock possibly stale); re-reading
    that wall clock in the zone would move the instant, so end - start != DURATION."""
    m = ctx.model
    it = Interp(m, provider="pytz")
    vddd = ClassVal(m.cls("prop.vDDDTypes"))
    vdur = ClassVal(m.cls("prop.vDuration"))
    for cq, endp in (("cal.Event", "DTEND"), ("cal.Todo", "DUE")):
        ci = m.cls(cq)
        for dshape in ("days", "secs", "daystime"):
            comp = it.call(ClassVal(ci), [], {})
            comp.items["DTSTART"] = it.call(vddd, [DT("zoned", 1, {"START": 1}, "Europe/Berlin")], {})
            comp.items["DURATION"] = stored(it, m, dshape, "DUR")
            try:
                v = it.getattr(comp, "end")
            except AbsRaise as ex:
                ctx.fail("C16/DT-END", f"[pytz] {ci.name} zoned DTSTART + DURATION={dshape}",
                         f"end raises {ex.cls_name}", ci.loc())
                continue
            except Unsupported as ex:
                raise AnalysisError(f"[pytz] {ci.name}.end leaves the abstract interface: {ex}")
            good = isinstance(v, DT) and term_str(v.term) == "DUR + START" and v.tag != "instant-moved"
            ctx.check(good, "C16/DT-END", f"[pytz] {ci.name} zoned DTSTART + DURATION={dshape}",
                      f"end = {v!r}{' (the wall clock of start + DURATION, which still carries the old offset, is re-read in the zone: the instant moves by the DST delta, end - start != DURATION)' if isinstance(v, DT) and v.tag == 'instant-moved' else ''}; "
                      f"expected the instant start + DURATION", ci.loc(), detail="DUR + START")


def journal_table(ctx):
    m = ctx.model
    ci = m.cls("cal.Journal")
    it = Interp(m)
    for s in SHAPES_DT:
        comp = it.call(ClassVal(ci), [], {})
        v = stored(it, m, s, "START")
        if v is not None:
            comp.items["DTSTART"] = v
        got = tuple(outcome(it, comp, a) for a in ("start", "end", "duration"))
        if s == "absent":
            exp = ("!IncompleteComponent", "!IncompleteComponent", "0")
        elif s in ("list", "text"):
            exp = ("!InvalidCalendar", "!InvalidCalendar", "0")
        else:
            exp = ("START", "START", "0")
        ctx.check(got == exp, "C16/DT-END", f"Journal DTSTART={s}",
                  f"Journal with DTSTART {s}: (start, end, duration) = {got}, "
                  f"expected {exp}", ci.loc(), detail=" | ".join(got))
