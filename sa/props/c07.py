"""C07 - TEXT escaping is lossless for every string: alone, as property, in lists.

Proof-level (E4): the replace chains are read from the AST and turned into
subsequential transducers; every obligation is an exact equivalence or range
query on the domain of strings avoiding the factors recorded as known
findings.  A factor listed as known is re-confirmed on every run.
"""
import ast

from ..core import AnalysisError, load_known
from ..flow import SymEnv, is_param, dump
from ..model import walk_no_nested
from .. import fst
from ..textpath import TextPath, normaliser

SEP = "\x1f"       # item boundary symbol of the list-level model


def known_factors(prop, rule):
    return [unkey(k["key"]) for k in load_known()
            if k.get("status") == "known" and k["property"] == prop
            and k["rule"] == rule and k["key"].startswith("factor:")]


def fkey(f):
    """Keys are printable: the factor in unicode_escape form."""
    return "factor:" + f.encode("unicode_escape").decode("ascii")


def unkey(k):
    return k.split("factor:", 1)[1].encode("ascii").decode("unicode_escape")


def decide_equiv(ctx, rule, A, B, what, loc, n_other=1, extra="", domain=None,
                 base_avoid=()):
    """Decide A ≡ B.  Known factors are confirmed and excluded; anything else
    is reported with its minimal factor as key."""
    known = known_factors(ctx.prop_id, rule)
    for f in known:
        if A.run(f) != B.run(f):
            ctx.fail(rule, fkey(f),
                     f"{what}: strings containing {f!r} are not restored "
                     f"({f!r} -> {A.run(f)!r}, expected {B.run(f)!r})", loc, witness=f)
        # an entry that no longer reproduces is reported by core as a NOTE
    avoid = list(known) + [f for f in base_avoid if f not in known]
    rounds = 0
    total_states = 0
    while True:
        ok, w, n = fst.equivalent(A, B, avoid, extra_chars=extra, n_other=n_other,
                                  domain=domain(avoid) if domain else None)
        total_states += n
        if ok:
            break
        # re-check the witness with the builtin str.replace semantics
        ra, rb = fst.python_reference(A, w), fst.python_reference(B, w)
        if ra == rb or A.run(w) == B.run(w):
            raise AnalysisError(f"{rule}: transducer witness {w!r} not confirmed "
                                f"by str.replace reference")
        f = fst.minimal_factor(A, B, w)
        ctx.fail(rule, fkey(f),
                 f"{what}: {w!r} -> {ra!r}, expected {rb!r} (minimal failing "
                 f"factor {f!r})", loc, witness=w)
        avoid.append(f)
        rounds += 1
        if rounds > 40:
            raise AnalysisError(f"{rule}: more than 40 distinct failing factors")
    ctx.ok(rule, f"equivalence on the domain avoiding {len(avoid)} factor(s)", loc,
           f"{what}: decided equal on all strings avoiding {avoid!r}; "
           f"{total_states} product states")
    return avoid, total_states


class Itemwise:
    """Applies a chain to each item of a SEP-separated list and joins the
    results with `joiner` (the writer of a list property)."""

    def __init__(self, chain, joiner):
        self.c = chain
        self.j = joiner
        self.init = chain.init

    def step(self, st, ch):
        if ch == SEP:
            return self.c.init, self.c.final(st) + self.j
        return self.c.step(st, ch)

    def final(self, st):
        return self.c.final(st)

    def chars(self):
        return self.c.chars() | set(self.j) | {SEP}


def run(ctx):
    m = ctx.model
    tp = TextPath(ctx)
    ctx.explanation = (
        "str.replace chains of escape_char / unescape_char / escape_string / "
        "unescape_string extracted from the AST as subsequential transducers; "
        "value path located by def-use expansion (vText.to_ical, "
        "Contentline.parts, vText.from_ical); equivalence with the documented "
        "normalisation N (\\N->LF, CRLF->LF) and range emptiness decided by "
        "bounded-delay product construction over an exact alphabet quotient; "
        "known factors confirmed and excluded.")
    ctx.trusted_base = [
        "transducer semantics of str.replace (leftmost, non-overlapping; "
        "DESIGN.md Appendix D), cross-checked on every witness against the "
        "builtin str.replace",
        "alphabet quotient: characters not occurring in any pattern or "
        "replacement are copied unchanged and in order by every stage",
        "fold/unfold and UTF-8 encode/decode are identities on content lines (C06)",
        "the value path factorises at the first unquoted ':' because every "
        "placeholder pattern starts with a backslash (checked)",
    ]
    N = normaliser()
    esc = tp.enc
    dec = tp.dec
    ctx.extra["value_path"] = {
        "encode": [f.qualname for f in tp.enc],
        "parts_value": [f.qualname for f in tp.value_stages],
        "decode": [f.qualname for f in tp.dec],
    }
    n_other = 2 if ctx.thorough else 1

    # ---- FST-CODEC ---------------------------------------------------------
    codec = tp.codec()
    decide_equiv(ctx, "C07/FST-CODEC", codec, N,
                 "vText.from_ical(vText(s).to_ical())", tp.vtext_from.loc(),
                 n_other=n_other)
    # sibling: bytes branch of the decoder is the same rewriting
    for f in tp.dec:
        chains = fst.function_chains(m, f)
        if "bytes" in chains and "str" in chains:
            same = [(s.p, s.r) if isinstance(s, fst.Replace) else repr(s)
                    for s in chains["bytes"].stages] == \
                   [(s.p, s.r) if isinstance(s, fst.Replace) else repr(s)
                    for s in chains["str"].stages]
            ctx.check(same, "C07/FST-CODEC", f"{f.qualname} bytes twin",
                      "the bytes branch rewrites differently from the str branch",
                      f.loc(), detail=f"{len(chains['str'].stages)} stages each")

    # ---- FST-RANGE ---------------------------------------------------------
    enc_chain = tp.compose(tp.enc, "encode")

    def bad_step(q, ch):
        # q = parity of the run of backslashes just seen
        if ch == "\n":
            return "BAD"
        if ch in ";," and q == 0:
            return "BAD"
        if ch == "\\":
            return 1 - q
        return 0
    ok, w, n = fst.range_avoids(enc_chain, bad_step, 0, extra_chars="\n;,\\\r")
    ctx.check(ok, "C07/FST-RANGE", "no raw LF, no unescaped ; or ,",
              f"vText({w!r}).to_ical() = {enc_chain.run(w) if w is not None else ''!r} "
              f"contains a raw line feed or an unescaped ';'/','",
              tp.vtext_to.loc(), witness=w, detail=f"{n} product states, range clean")

    # ---- FST-PROP ----------------------------------------------------------
    # placeholder patterns all start with a backslash (factorisation lemma)
    for f in tp.value_stages[:1]:
        ch = tp.chain(f)
        pats = [s.p for s in ch.stages if isinstance(s, fst.Replace)]
        ctx.check(all(p.startswith("\\") for p in pats), "C07/FST-PROP",
                  "placeholder patterns start with backslash",
                  f"{f.qualname} replaces {pats}: the value path no longer "
                  f"factorises at the name/value colon", f.loc(),
                  detail=f"{pats}")
    prop = tp.property_path()
    decide_equiv(ctx, "C07/FST-PROP", prop, N,
                 "TEXT property value through to_ical and from_ical",
                 tp.parts.loc(tp.parts_ret), n_other=n_other)

    # ---- WIRE-MODEL: the whole wire path, bounded (E9) -------------------------------
    from .. import strmodel
    strmodel.report(ctx, "C07/WIRE-MODEL", strmodel.explore_wire, strmodel.WIRE_LAWS,
                    tp.parts.loc(), 300)
    # a property value is written folded and read unfolded: long texts of every character
    # width come back exactly (the physical-line model shared with C06/C09)
    strmodel.report(ctx, "C07/PHYS-MODEL", strmodel.explore_physical, ["unfold", "whole characters"],
                    m.own_method("parser.Contentline.to_ical").loc(), 100,
                    select=lambda law: law in ("unfold", "whole characters"))

    # ---- FST-LIST ----------------------------------------------------------
    vc = m.cls("prop.vCategory")
    to_i = vc.methods.get("to_ical")
    fr_i = vc.methods.get("from_ical")
    if to_i is None or fr_i is None:
        raise AnalysisError("anchor vanished: vCategory.to_ical/from_ical")
    # writer: <joiner>.join([c.to_ical() for c in self.cats]); cats are vText
    joiner = None
    for r in walk_no_nested(to_i.node):
        if isinstance(r, ast.Return) and isinstance(r.value, ast.Call) \
                and isinstance(r.value.func, ast.Attribute) \
                and r.value.func.attr == "join" \
                and isinstance(r.value.func.value, ast.Constant):
            j = r.value.func.value.value
            joiner = j.decode("latin-1") if isinstance(j, bytes) else j
            inner = r.value.args[0]
            per_item = isinstance(inner, (ast.ListComp, ast.GeneratorExp)) and \
                isinstance(inner.elt, ast.Call) and \
                isinstance(inner.elt.func, ast.Attribute) and \
                inner.elt.func.attr == "to_ical"
            if not per_item:
                raise AnalysisError("vCategory.to_ical: items are not rendered by to_ical()")
    if joiner is None:
        raise AnalysisError("vCategory.to_ical: `<sep>.join(...)` not found")
    init = vc.methods.get("__init__")
    wraps_vtext = init is not None and any(
        isinstance(c, ast.Call) and isinstance(c.func, ast.Name) and c.func.id == "vText"
        for c in ast.walk(init.node))
    ctx.check(wraps_vtext, "C07/FST-LIST", "items are TEXT values",
              "vCategory no longer wraps its items in vText: they are emitted "
              "unescaped", vc.loc(), detail="self.cats = [vText(c) ...]")
    # reader: unescape_char(to_unicode(ical)).split(<sep>)
    env = SymEnv(fr_i.node)
    rets = [n for n in walk_no_nested(fr_i.node) if isinstance(n, ast.Return)]
    if len(rets) != 1:
        raise AnalysisError("vCategory.from_ical: single return expected")
    ex = env.expand_at(rets[0].value, rets[0])
    splitter = None
    reader_stages = None
    split_first = False
    if isinstance(ex, ast.Call) and isinstance(ex.func, ast.Attribute) \
            and ex.func.attr == "split" and ex.args \
            and isinstance(ex.args[0], ast.Constant):
        splitter = ex.args[0].value
        from ..textpath import stages_of
        reader_stages = stages_of(m, fr_i, ex.func.value, fr_i.params[0])
    elif isinstance(ex, ast.ListComp) and len(ex.generators) == 1 \
            and isinstance(ex.elt, ast.Name) \
            and isinstance(ex.generators[0].target, ast.Name) \
            and ex.elt.id == ex.generators[0].target.id \
            and isinstance(ex.generators[0].iter, ast.Call) \
            and isinstance(ex.generators[0].iter.func, ast.Attribute) \
            and ex.generators[0].iter.func.attr == "split":
        # [c for c in <decoded>.split(sep) if ...]: same pipeline, possibly filtered
        it = ex.generators[0].iter
        splitter = it.args[0].value if it.args and isinstance(it.args[0], ast.Constant) else None
        from ..textpath import stages_of
        reader_stages = stages_of(m, fr_i, it.func.value, fr_i.params[0])
        ctx.check(not ex.generators[0].ifs, "C07/FST-LIST", "every split item kept",
                  f"the reader filters the split items (`{dump(ex.generators[0].ifs[0]) if ex.generators[0].ifs else ''}`): "
                  f"items that decode to a false value (the empty string) are "
                  f"dropped", fr_i.loc(rets[0]), witness=["first", "", "last"])
    elif isinstance(ex, (ast.ListComp,)):
        # repaired form: [unescape(x) for x in <split of raw text>]
        split_first = True
    if splitter is None and not split_first:
        raise AnalysisError(f"vCategory.from_ical: `{dump(ex)[:70]}` not recognised")
    if split_first:
        ctx.note("vCategory.from_ical splits before unescaping: list-level "
                 "model for that order is not built; K3 factors would no longer apply")
        ctx.note("C07/FST-LIST not applicable to this form of vCategory.from_ical; the list "
                 "codec is decided by C07/WIRE-MODEL (bounded) only")
        return
    ctx.check(splitter == joiner, "C07/FST-LIST", "list separator agreement",
              f"writer joins items with {joiner!r}, reader splits on {splitter!r}",
              fr_i.loc(), detail=repr(joiner))
    writer = Itemwise(enc_chain, joiner)
    wire = tp.wire()
    reader = tp.compose(reader_stages, "list-decode")
    rename = fst.Chain([fst.Replace(splitter, SEP)], "split")
    A = fst.Chain([writer] + wire.stages + reader.stages + rename.stages, "list path")
    B = fst.Chain([Itemwise(N, SEP)], "N per item")
    _patch_pyref()
    decide_equiv(ctx, "C07/FST-LIST", A, B,
                 "items of a comma-separated TEXT list through to_ical and "
                 "from_ical (\\x1f marks an item boundary)", fr_i.loc(),
                 n_other=n_other, extra=SEP)
    ctx.floor("C07/FST-CODEC", 2)
    ctx.floor("C07/FST-PROP", 2)
    ctx.floor("C07/FST-LIST", 3)


def _patch_pyref():
    """python_reference for chains that contain an Itemwise stage: apply the
    reference per item."""
    orig = fst.python_reference
    if getattr(orig, "_itemwise", False):
        return

    def ref(chain, text):
        for s in chain.stages:
            if isinstance(s, Itemwise):
                text = s.j.join(orig(s.c, it) for it in text.split(SEP))
            elif isinstance(s, fst.Replace):
                text = text.replace(s.p, s.r)
            else:
                text = orig(fst.Chain([s]), text)
        return text
    ref._itemwise = True
    fst.python_reference = ref
