"""C12 - VTIMEZONE is interpreted per RFC 5545 onset rules, same in both
providers, independent of earlier parses and of its position in the file.

Decided: HISTORY (no process-global state written by one parse is read by a
parse, except the listed known finding), ONSET-MODEL (Timezone.get_transitions
and PYTZ.create_timezone interpreted on abstract VTIMEZONEs - symbolic onsets,
concrete whole-minute offsets, DTSTART / RDATE / RRULE - against the RFC 5545
3.6.5 oracle: sa/tzmodel.py), PROVIDERS (both providers implement the whole
interface; same open-ended cut-off), OWN-DEFINITION (a custom TZID is served
from the calendar's own VTIMEZONE).
Not decided: what dateutil/pytz/zoneinfo do with the transitions they are given
(the offset reported at every instant), dateutil's expansion of an RRULE, the
zoneinfo provider's path through dateutil.tz.tzical, offsets with seconds.
"""
import ast

from ..core import AnalysisError
from ..flow import SymEnv, is_param, is_marker, dump
from ..model import ClassInfo, walk_no_nested, body_without_docstring
from .c10 import Writes, root_of, chain_of


def run(ctx):
    m = ctx.model
    ctx.explanation = (
        "global write/read effects of the Component.from_ical cone (stores "
        "through module singletons, propagated over the call graph); abstract "
        "interpretation (E7, sa.tzmodel) of Timezone.get_transitions and "
        "PYTZ.create_timezone on abstract VTIMEZONEs with symbolic onsets against "
        "the RFC 5545 3.6.5 oracle; interface completeness of the two TZProvider "
        "implementations and their cut-off constants; interpretation of "
        "TZP.cache_timezone_component on custom ids.")
    _history(ctx)
    _onset(ctx)
    _providers(ctx)
    _own_definition(ctx)
    # position in the file: a value that follows the VTIMEZONE of its TZID is decoded with that
    # definition whatever was looked up before (parse-loop model with a provider that learns ids)
    from .. import parseloop
    parseloop.report(ctx, "C12/POSITION",
                     lambda d: d["cause"] == "TZID forwarding differs" and any("VTIMEZONE" in l for l in d["labels"]),
                     "values after a VTIMEZONE are decoded with the zone it defines",
                     laws=("a TZID that is defined earlier in the file reaches the decoder resolved",
                           "a lookup before the definition does not affect values after it"))


# ---------------------------------------------------------------------------
def _own_definition(ctx):
    """A custom TZID is served from the VTIMEZONE of the calendar: what
    TZP.cache_timezone_component stores for an id the provider does not know is
    the zone *built from the component*, never one looked up by (part of) the
    id.  TZP.cache_timezone_component, Timezone.to_tz, TZP.timezone and
    TZP.create_timezone are interpreted (E7) on a stub provider."""
    from ..absint import (Interp, Obj, ClassVal, AbsRaise, Unsupported, Native, NativeObj, Bound,
                          Closure, TZ)
    m = ctx.model
    tzp_cls = m.cls("timezone.tzp.TZP")
    f = m.lookup_method(tzp_cls, "cache_timezone_component")
    if f is None:
        raise AnalysisError("anchor vanished: TZP.cache_timezone_component")
    KNOWN = {"Europe/Berlin", "UTC"}

    class P(Interp):
        def _native_obj_attr(self, o, name):
            if o.name == "provider":
                if name == "knows_timezone_id":
                    return Native("knows", lambda i, a, k: self._str(a[0]) in KNOWN)
                if name == "timezone":
                    return Native("provider.timezone", lambda i, a, k:
                                  TZ("zone", self._str(a[0]), "zoneinfo") if self._str(a[0]) in KNOWN else None)
                if name == "create_timezone":
                    return Native("provider.create_timezone", lambda i, a, k: ("built-from", a[0]))
                raise Unsupported(f"provider.{name}")
            return super()._native_obj_attr(o, name)

    ids = ["Custom/Zone", "/example.org/20240101_1/Europe/Berlin", "/softwarestudio.org/Tzfile/Europe/Berlin",
           "/Custom", "custom_Europe/Berlin"]
    for tzid in ids:
        it = P(m)
        self_ = Obj(tzp_cls)
        cache = {}
        for nm in ("__provider", "_TZP__provider"):
            self_.attrs[nm] = NativeObj("provider")
        for nm in ("__tz_cache", "_TZP__tz_cache"):
            self_.attrs[nm] = cache
        comp = it.instantiate(m.cls("cal.Timezone"), [], {})
        comp.items["TZID"] = tzid
        label = f"VTIMEZONE TZID={tzid}"
        try:
            it.call(Bound(Closure(f), self_), [comp], {})
        except AbsRaise as e:
            ctx.fail("C12/OWN-DEFINITION", label, f"cache_timezone_component raises {e.cls_name}", f.loc())
            continue
        except Unsupported as e:
            raise AnalysisError(f"cache_timezone_component leaves the abstract interface ({tzid}): {e}")
        vals = list(cache.values())
        good = len(vals) == 1 and isinstance(vals[0], tuple) and vals[0][0] == "built-from" \
            and vals[0][1] is comp
        ctx.check(good, "C12/OWN-DEFINITION", label,
                  f"for the id {tzid!r} (unknown to the provider) the cache holds {vals!r}; it must hold "
                  f"the zone built from this very VTIMEZONE (tzp.create_timezone(component)), so that "
                  f"date-times referencing the TZID get the offsets the calendar defines",
                  f.loc(), detail="built from the component")


# ---------------------------------------------------------------------------
def _history(ctx):
    m = ctx.model
    comp = m.cls("cal.Component")
    fi = comp.methods["from_ical"]
    W = Writes(m)
    summ = W.fixpoint(fi)
    cone = W.cg.cone([fi])
    globals_written = {(r, site): w for (r, site), w in summ.items() if r.startswith("g:")}
    # also stores through `self` of module singletons reached as globals are
    # reported under their global root by the binding step
    n = 0
    written_attrs = set()
    for (r, site), w in sorted(globals_written.items(), key=lambda kv: kv[0]):
        rt = root_of(w)
        f, node, what, _ = rt
        n += 1
        attr = None
        for x in ast.walk(node):
            if isinstance(x, ast.Attribute) and isinstance(x.value, ast.Name) and x.value.id == "self":
                attr = x.attr
                break
        written_attrs.add((r, attr))
        # is the written attribute read in the parse cone?
        readers = []
        for q, (g, parent) in cone.items():
            if g.cls is None or f.cls is None or g.cls is not f.cls:
                continue
            for x in walk_no_nested(g.node):
                if isinstance(x, ast.Attribute) and isinstance(x.ctx, ast.Load) and x.attr == attr \
                        and isinstance(x.value, ast.Name) and x.value.id == "self" and g is not f:
                    readers.append(g.qualname)
        readers = sorted(set(readers))
        key = f"write {f.qualname} {what[:60]}"
        ctx.fail("C12/HISTORY", key,
                 f"Component.from_ical writes process-global state ({what} in {f.qualname}, "
                 f"through the module singleton {r[2:]}) that later parses read "
                 f"({', '.join(readers) or 'no reader in the cone'}): the result of a parse "
                 f"depends on calendars parsed earlier and on where the VTIMEZONE stands in "
                 f"the file; path {' <- '.join(chain_of(w)[:5])}", f.loc(node),
                 witness="two calendars defining the same custom TZID differently; VTIMEZONE after the VEVENT")
    ctx.ok("C12/HISTORY", "from_ical cone analysed for global stores", fi.loc(),
           f"{len(cone)} functions; {n} store(s) into module-level state")
    ctx.extra["from_ical_cone_functions"] = len(cone)
    if len(cone) < 60:
        raise AnalysisError(f"from_ical cone has only {len(cone)} functions")
    # module-level mutable containers written anywhere in the cone by name
    for q, (g, parent) in cone.items():
        for x in walk_no_nested(g.node):
            if isinstance(x, (ast.Global,)):
                ctx.fail("C12/HISTORY", f"global statement in {g.qualname}",
                         f"{g.qualname} rebinds module globals {x.names} during a parse", g.loc(x))


# ---------------------------------------------------------------------------
def _onset(ctx):
    """What get_transitions / PYTZ.create_timezone compute on abstract VTIMEZONEs
    (sa/tzmodel.py) against the RFC 5545 3.6.5 oracle."""
    from .. import tzmodel
    m = ctx.model
    gt = m.lookup_method(m.cls("cal.Timezone"), "get_transitions")
    if gt is None:
        raise AnalysisError("anchor vanished: Timezone.get_transitions")
    tzmodel.report(ctx, "C12/ONSET-MODEL", gt.loc(), 20)


# ---------------------------------------------------------------------------
def _providers(ctx):
    m = ctx.model
    base = m.cls("timezone.provider.TZProvider")
    abstract = [n for n, f in list(base.methods.items()) + [(k, v.get("get")) for k, v in base.properties.items()]
                if f is not None and any("abstractmethod" in d for d in f.decorators)]
    impls = m.subclasses(base)
    if len(impls) < 2:
        raise AnalysisError("fewer than two TZProvider implementations found")
    for ci in impls:
        for name in sorted(set(abstract)):
            have = name in ci.methods or name in ci.attrs or name in ci.properties
            ctx.check(have, "C12/PROVIDERS", f"{ci.name}.{name}",
                      f"{ci.name} does not implement the abstract {name}", ci.loc(), detail="defined")
    # same cut-off in fix_rrule_until
    cut = {}
    for ci in impls:
        f = ci.methods.get("fix_rrule_until")
        if f is None:
            continue
        for c in ast.walk(f.node):
            if isinstance(c, ast.Call) and isinstance(c.func, ast.Name) and c.func.id == "datetime":
                cut[ci.name] = tuple(a.value for a in c.args if isinstance(a, ast.Constant))
        cond = [n for n in ast.walk(f.node) if isinstance(n, ast.If)]
        keys = sorted(k.value for n in cond for k in ast.walk(n.test)
                      if isinstance(k, ast.Constant) and isinstance(k.value, str))
        ctx.check(keys == ["COUNT", "UNTIL"], "C12/PROVIDERS", f"{ci.name}.fix_rrule_until condition",
                  f"{ci.name}.fix_rrule_until must cap only rules without UNTIL and COUNT (tests {keys})",
                  f.loc(), detail="no UNTIL and no COUNT")
    vals = set(cut.values())
    ctx.check(len(cut) == len(impls) and len(vals) == 1, "C12/PROVIDERS", "same open-ended cut-off",
              f"the providers cap open-ended rules at different dates: {cut}", base.loc(),
              detail=str(next(iter(vals))) if vals else "")
    # the TZP proxy forwards to the provider for every interface method it exposes
    tzp = m.cls("timezone.tzp.TZP")
    for name in ("localize_utc", "localize", "fix_rrule_until", "create_timezone"):
        f = tzp.methods.get(name)
        fw = f is not None and any(isinstance(c, ast.Call) and isinstance(c.func, ast.Attribute)
                                   and c.func.attr == name and "provider" in dump(c.func.value)
                                   for c in ast.walk(f.node))
        ctx.check(fw, "C12/PROVIDERS", f"TZP.{name} forwards to the provider",
                  f"TZP.{name} must delegate to the active provider", f.loc() if f else tzp.loc(),
                  detail="self.__provider." + name)
