"""C14 - alarm times = anchor + TRIGGER + k*DURATION, k = 0..REPEAT.

COUNT: symbolic trip counts of the two repeat loops (E6 linear forms).
ANCHOR: symbolic evaluation (E7) of Alarms(component).times, the manual
Alarms() path and Alarm.triggers on abstract components; results are terms in
linear normal form over START, END, DUR, T, D and are compared with the terms
the statement prescribes.  END-RULE is shared with C16/DT-END.
Not decided: date vs date-time arithmetic values and DST normalisation.
"""
import ast
import itertools

from ..core import AnalysisError
from ..absint import (Interp, DT, TD, Obj, ClassVal, AbsRaise, Unsupported,
                      term_str, term_add, term_scale)
from ..flow import SymEnv, is_param, dump
from ..loops import linear, lin_sub, lin_str, lin_eq
from ..model import walk_no_nested


def run(ctx):
    m = ctx.model
    ctx.explanation = (
        "symbolic trip count of the repeat loops in Alarms._repeat and "
        "Alarm.triggers; abstract evaluation of Alarms(component).times, of the "
        "manual Alarms()/add_alarm/set_start/set_end path and of Alarm.triggers "
        "with start/end/trigger/duration as symbols (results compared as linear "
        "normal forms with anchor + TRIGGER + k*DURATION).")
    ctx.assume("date/datetime arithmetic is modelled symbolically: values of "
               "date vs date-time addition and DST normalisation are not decided")
    try:
        _count(ctx)
    except AnalysisError as e:
        # the symbolic trip count needs `for i in range(...)`; any other way of
        # writing the repeats is still decided, for REPEAT in 0..2 (3), by the
        # abstract evaluation below (ANCHOR / TRIGGERS)
        ctx.note(f"C14/COUNT not applicable to this shape ({e}); repeats are decided by "
                 f"C14/ANCHOR and C14/TRIGGERS for REPEAT <= {3 if ctx.thorough else 2}")
    _anchor_component(ctx)
    _anchor_component(ctx, provider="pytz")
    _anchor_manual(ctx)
    _triggers(ctx)
    # a TRIGGER / DURATION read from text is the value the text denotes (every dur-value form,
    # sign and length; weeks included) - the decoder sweep of the codec model
    from .. import codecmodel
    codecmodel.report(ctx, "C14/TRIGGER-TEXT", codecmodel.explore_dispatch, ["classification"],
                      ctx.model.cls("prop.vDuration").loc(), 100)


# ---------------------------------------------------------------------------
def _range_count(call):
    """Trip count of range(...) as a linear form; also the first index."""
    if len(call.args) == 1:
        return linear(call.args[0]), {}
    if len(call.args) == 2:
        return lin_sub(linear(call.args[1]), linear(call.args[0])), linear(call.args[0])
    raise AnalysisError("range with a step in a repeat loop")


def _count(ctx):
    m = ctx.model
    rp = m.own_method("alarms.Alarms._repeat")
    env = SymEnv(rp.node)
    loops = [n for n in walk_no_nested(rp.node) if isinstance(n, ast.For)]
    if len(loops) != 1 or not (isinstance(loops[0].iter, ast.Call)
                               and isinstance(loops[0].iter.func, ast.Name)
                               and loops[0].iter.func.id == "range"):
        raise AnalysisError("Alarms._repeat: repeat loop over range(...) not found")
    lp = loops[0]
    cnt, first = _range_count(lp.iter)
    # which variable is the repeat count? the one assigned from alarm.REPEAT
    rep_vars = [n.targets[0].id for n in ast.walk(rp.node) if isinstance(n, ast.Assign)
                and isinstance(n.value, ast.Attribute) and n.value.attr == "REPEAT"]
    if len(rep_vars) != 1:
        raise AnalysisError("Alarms._repeat: `repeat = alarm.REPEAT` not found")
    ctx.check(lin_eq(cnt, {rep_vars[0]: 1}), "C14/COUNT", "Alarms._repeat trip count",
              f"the repeat loop runs {lin_str(cnt)} times; it must run REPEAT times",
              rp.loc(lp), detail=f"range -> {lin_str(cnt)} iterations")
    ctx.check(lin_eq(first, {1: 1}), "C14/COUNT", "Alarms._repeat first multiplier",
              f"the first repetition uses multiplier {lin_str(first)}, expected 1 "
              f"(k-th repeat = first + k*DURATION)", rp.loc(lp), detail="k starts at 1")
    # body yields first + duration * i through self._add
    ys = [n for n in ast.walk(lp) if isinstance(n, ast.Yield)]
    okm = False
    for y in ys:
        for c in ast.walk(y):
            if isinstance(c, ast.BinOp) and isinstance(c.op, ast.Mult):
                names = {n.id for n in ast.walk(c) if isinstance(n, ast.Name)}
                okm = lp.target.id in names
    ctx.check(okm and len(ys) == 1, "C14/COUNT", "Alarms._repeat multiplies by the loop index",
              "each repetition must be first + DURATION * k with k the loop index",
              rp.loc(lp), detail="duration * i")
    first_yield = [n for n in walk_no_nested(rp.node) if isinstance(n, ast.Yield)
                   and not any(n is x for x in ast.walk(lp))]
    ctx.check(len(first_yield) == 1 and first_yield[0].lineno < lp.lineno, "C14/COUNT",
              "first time always yielded",
              "the un-repeated trigger time must be yielded unconditionally before "
              "the repeats", rp.loc(), detail="yield first")
    tr = m.cls("cal.Alarm").properties.get("triggers", {}).get("get")
    if tr is None:
        raise AnalysisError("anchor vanished: Alarm.triggers")
    loops = [n for n in ast.walk(tr.node) if isinstance(n, ast.For)]
    if len(loops) != 1:
        raise AnalysisError("Alarm.triggers: repeat loop not found")
    cnt, first = _range_count(loops[0].iter)
    ok = len(cnt) == 1 and "REPEAT" in next(iter(cnt)) and next(iter(cnt.values())) == 1
    ctx.check(ok, "C14/COUNT", "Alarm.triggers trip count",
              f"the repeat loop runs {lin_str(cnt)} times; it must run self.REPEAT times",
              tr.loc(loops[0]), detail=lin_str(cnt))


# ---------------------------------------------------------------------------
TRIGGERS = [
    # (label, kind, related, subday)
    ("rel-START-days", "rel", "START", False), ("rel-START-sub", "rel", "START", True),
    ("rel-END-days", "rel", "END", False), ("rel-END-sub", "rel", "END", True),
    ("rel-default-days", "rel", None, False), ("absolute", "abs", None, None),
    ("none", "none", None, None),
    # a zero-length trigger (PT0S): the alarm fires at the anchor itself
    ("rel-START-zero", "rel", "START", "zero"), ("rel-END-zero", "rel", "END", "zero"),
]


def mk_alarm(it, m, label, kind, related, subday, dur, repeat, idx=0):
    alarm = it.call(ClassVal(m.cls("cal.Alarm")), [], {})
    vddd = ClassVal(m.cls("prop.vDDDTypes"))
    vdur = ClassVal(m.cls("prop.vDuration"))
    if kind == "rel":
        v = it.call(vddd, [TD(term={f"T{idx}": 1}, mag="zero" if subday == "zero" else
                              ("subday" if subday else "days"))], {})
        if related is not None:
            v.attrs["params"].items["RELATED"] = related
        alarm.items["TRIGGER"] = v
    elif kind == "abs":
        alarm.items["TRIGGER"] = it.call(vddd, [DT("utc", None, {f"T{idx}": 1})], {})
    if dur is not None:
        alarm.items["DURATION"] = it.call(
            vdur, [TD(term={f"D{idx}": 1}, mag="subday" if dur == "sub" else "days")], {})
    if repeat is not None:
        alarm.items["REPEAT"] = repeat
    return alarm


def expected_terms(kind, related, dur, repeat, idx, start_term, end_term):
    if kind == "none":
        return []
    if kind == "abs":
        base = {f"T{idx}": 1}
    elif related == "END":
        if end_term is None:
            return None
        base = term_add(end_term, {f"T{idx}": 1})
    else:
        if start_term is None:
            return None
        base = term_add(start_term, {f"T{idx}": 1})
    n = repeat if (dur is not None and repeat) else 0
    return [term_str(term_add(base, term_scale({f"D{idx}": 1}, k))) for k in range(n + 1)]


def read_times(it, alarms):
    out = []
    for at in it.getattr(alarms, "times"):
        t = at.attrs.get("_trigger")
        if not isinstance(t, DT):
            raise AnalysisError(f"alarm time is not a date/datetime: {t!r}")
        out.append((term_str(t.term), t.tag))
    return out


def _anchor_component(ctx, provider="zoneinfo"):
    m = ctx.model
    it = Interp(m, provider=provider)
    vddd = ClassVal(m.cls("prop.vDDDTypes"))
    vdur = ClassVal(m.cls("prop.vDuration"))
    al_cls = m.cls("alarms.Alarms")
    n = 0
    repeats = [None, 0, 1, 2] + ([3] if ctx.thorough else [])
    for cq, endp in (("cal.Event", "DTEND"), ("cal.Todo", "DUE")):
        ci = m.cls(cq)
        for skind in (("date", "naive", "zoned") if provider == "zoneinfo" else ("zoned",)):
            ends = ["none", "END", "DUR-days", "DUR-zero"] + (["DUR-sub"] if skind != "date" else []) + \
                (["END-other-zone"] if skind == "zoned" and provider == "zoneinfo" else [])
            for endspec in ends:
                for (label, kind, related, subday), dur, rep in itertools.product(
                        TRIGGERS, (None, "days", "sub"), repeats):
                    if kind == "none" and (dur or rep):
                        continue
                    it.steps = 0
                    comp = it.call(ClassVal(ci), [], {})
                    comp.items["DTSTART"] = it.call(vddd, [DT(skind, None, {"START": 1},
                                                              "Europe/Berlin" if skind == "zoned" else None)], {})
                    start_term = {"START": 1}
                    if endspec in ("END", "END-other-zone"):
                        ezone = "America/New_York" if endspec == "END-other-zone" else "Europe/Berlin"
                        comp.items[endp] = it.call(vddd, [DT(skind, None, {"END": 1},
                                                             ezone if skind == "zoned" else None)], {})
                        end_term = {"END": 1}
                    elif endspec.startswith("DUR"):
                        mag = {"DUR-days": "days", "DUR-sub": "subday", "DUR-zero": "zero"}[endspec]
                        comp.items["DURATION"] = it.call(vdur, [TD(term={"DUR": 1}, mag=mag)], {})
                        end_term = {"START": 1, "DUR": 1}
                    else:
                        end_term = {"START": 1, "day": 1} if skind == "date" else {"START": 1}
                    alarm = mk_alarm(it, m, label, kind, related, subday, dur, rep)
                    comp.attrs["subcomponents"].append(alarm)
                    exp = expected_terms(kind, related, dur, rep, 0, start_term, end_term)
                    n += 1
                    key = (f"{'[pytz] ' if provider == 'pytz' else ''}{ci.name} start={skind} end={endspec} "
                           f"trigger={label} DURATION={dur} REPEAT={rep}")
                    try:
                        alarms = it.call(ClassVal(al_cls), [comp], {})
                        got = read_times(it, alarms)
                    except AbsRaise as e:
                        ctx.fail("C14/ANCHOR", key, f"raised {e.cls_name} ({e.msg}); expected "
                                 f"times {exp}", al_cls.loc())
                        continue
                    except Unsupported as e:
                        raise AnalysisError(f"alarm computation leaves the abstract interface "
                                            f"for [{key}]: {e}")
                    dropped = [t for t, tag in got if tag == "seconds-dropped"]
                    moved = [t for t, tag in got if tag == "instant-moved" or
                             (tag == "elapsed-arith" and provider == "zoneinfo")]
                    ctx.check(sorted(t for t, _ in got) == sorted(exp) and not dropped and not moved,
                              "C14/ANCHOR", key,
                              f"alarm times {[t for t, _ in got]}"
                              f"{' (time-of-day part of a duration dropped by date arithmetic)' if dropped else ''}"
                              f"{' (the instant is moved: the time was computed on the UTC line and converted back - elapsed-time instead of wall-clock arithmetic, off by the DST change under zoneinfo -, or a pytz wall clock with a stale offset is re-read in the zone, or a difference of instants is added to a wall clock of another zone)' if moved else ''}"
                              f", expected {exp}", al_cls.loc(), detail=", ".join(exp) or "no times")
    if provider != "zoneinfo":
        ctx.extra["component_cases_pytz"] = n
        return
    # two alarms on one component: contributions are independent
    ci = m.cls("cal.Event")
    comp = it.call(ClassVal(ci), [], {})
    comp.items["DTSTART"] = it.call(vddd, [DT("naive", None, {"START": 1})], {})
    comp.items["DTEND"] = it.call(vddd, [DT("naive", None, {"END": 1})], {})
    comp.attrs["subcomponents"].append(mk_alarm(it, m, "a", "rel", "END", True, "sub", 1, idx=0))
    comp.attrs["subcomponents"].append(mk_alarm(it, m, "b", "rel", None, False, None, None, idx=1))
    comp.attrs["subcomponents"].append(mk_alarm(it, m, "c", "abs", None, None, "days", 2, idx=2))
    got = sorted(t for t, _ in read_times(it, it.call(ClassVal(al_cls), [comp], {})))
    exp = sorted(["END + T0", "D0 + END + T0", "START + T1", "T2", "D2 + T2", "2*D2 + T2"])
    ctx.check(got == exp, "C14/ANCHOR", "three alarms on one event",
              f"times {got}, expected {exp}", al_cls.loc(), detail=", ".join(exp))
    ctx.extra["component_cases"] = n


def _anchor_manual(ctx):
    """Alarms() + add_alarm + optional set_start/set_end."""
    m = ctx.model
    it = Interp(m)
    al_cls = m.cls("alarms.Alarms")
    # a component without alarms first, the alarm added afterwards: the component's own
    # start and end are known, so nothing may be reported missing
    vddd = ClassVal(m.cls("prop.vDDDTypes"))
    for cq, endp in (("cal.Event", "DTEND"), ("cal.Todo", "DUE")):
        for (label, kind, related, subday), how in itertools.product(TRIGGERS, ("ctor", "add_component")):
            if kind == "none":
                continue
            it.steps = 0
            comp = it.call(ClassVal(m.cls(cq)), [], {})
            comp.items["DTSTART"] = it.call(vddd, [DT("utc", None, {"START": 1})], {})
            comp.items[endp] = it.call(vddd, [DT("utc", None, {"END": 1})], {})
            key = f"{m.cls(cq).name} without alarms via {how}, then add_alarm trigger={label}"
            try:
                if how == "ctor":
                    alarms = it.call(ClassVal(al_cls), [comp], {})
                else:
                    alarms = it.call(ClassVal(al_cls), [], {})
                    it.call(it.getattr(alarms, "add_component"), [comp], {})
                it.call(it.getattr(alarms, "add_alarm"), [mk_alarm(it, m, label, kind, related, subday,
                                                                  "sub", 1)], {})
                got = sorted(t for t, _ in read_times(it, alarms))
            except AbsRaise as e:
                got = "!" + e.cls_name
            except Unsupported as e:
                raise AnalysisError(f"manual alarm path leaves the abstract interface [{key}]: {e}")
            exp = sorted(expected_terms(kind, related, "sub", 1, 0, {"START": 1}, {"END": 1}))
            ctx.check(got == exp, "C14/ANCHOR", key,
                      f"times {got}, expected {exp}: the component's start and end are known when the "
                      f"alarm is added later", al_cls.loc(), detail=str(exp))
    for (label, kind, related, subday), has_start, has_end in itertools.product(
            TRIGGERS, (False, True), (False, True)):
        alarms = it.call(ClassVal(al_cls), [], {})
        alarm = mk_alarm(it, m, label, kind, related, subday, "sub", 1)
        it.call(it.getattr(alarms, "add_alarm"), [alarm], {})
        if has_start:
            it.call(it.getattr(alarms, "set_start"), [DT("utc", None, {"START": 1})], {})
        if has_end:
            it.call(it.getattr(alarms, "set_end"), [DT("utc", None, {"END": 1})], {})
        exp = expected_terms(kind, related, "sub", 1, 0,
                             {"START": 1} if has_start else None,
                             {"END": 1} if has_end else None)
        if exp is None:
            exp = "!ComponentEndMissing" if related == "END" else "!ComponentStartMissing"
        key = f"manual trigger={label} start={'set' if has_start else 'unset'} end={'set' if has_end else 'unset'}"
        try:
            got = sorted(t for t, _ in read_times(it, alarms))
            if isinstance(exp, list):
                exp = sorted(exp)
        except AbsRaise as e:
            got = "!" + e.cls_name
        except Unsupported as e:
            raise AnalysisError(f"manual alarm path leaves the abstract interface [{key}]: {e}")
        ctx.check(got == exp, "C14/ANCHOR", key,
                  f"times {got}, expected {exp} (absolute alarms need neither start "
                  f"nor end; a missing anchor is reported by ComponentStartMissing / "
                  f"ComponentEndMissing only when a relative alarm needs it)",
                  al_cls.loc(), detail=str(exp))


def _triggers(ctx):
    """Alarm.triggers: (start, end, absolute) tuples of repeated triggers."""
    m = ctx.model
    it = Interp(m)
    for (label, kind, related, subday), dur, rep in itertools.product(
            TRIGGERS, (None, "sub"), (None, 0, 2)):
        alarm = mk_alarm(it, m, label, kind, related, subday, dur, rep)
        try:
            v = it.getattr(alarm, "triggers")
        except AbsRaise as e:
            ctx.fail("C14/TRIGGERS", f"{label} DURATION={dur} REPEAT={rep}",
                     f"Alarm.triggers raised {e.cls_name}", m.cls("cal.Alarm").loc())
            continue
        except Unsupported as e:
            raise AnalysisError(f"Alarm.triggers leaves the abstract interface: {e}")
        if not (isinstance(v, tuple) and v and v[0] == "namedtuple"):
            raise AnalysisError(f"Alarm.triggers returned {v!r}")
        fields = v[2]
        got = {k: [term_str(x.term) for x in fields.get(k, ())] for k in ("start", "end", "absolute")}
        n = rep if (dur and rep) else 0
        seq = [term_str(term_add({"T0": 1}, term_scale({"D0": 1}, k))) for k in range(n + 1)]
        exp = {"start": [], "end": [], "absolute": []}
        if kind == "abs":
            exp["absolute"] = seq
        elif kind == "rel":
            exp["end" if related == "END" else "start"] = seq
        ctx.check(got == exp, "C14/TRIGGERS", f"{label} DURATION={dur} REPEAT={rep}",
                  f"Alarm.triggers = {got}, expected {exp}", m.cls("cal.Alarm").loc(),
                  detail=str(exp))
