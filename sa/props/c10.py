"""C10 - serialisation is deterministic, pure and insertion-order independent.

Decided: PURE (write-effect analysis of the to_ical cone), HASHSEED (no set
iteration order flows into ordered structures or output), SORT-FLAG (the
sorted flag selects sorted vs insertion order and reaches every nested
sorter), TREE-EMIT (E7: property_items / content_lines / to_ical interpreted
on abstract trees: BEGIN/END balance, canonical vs insertion order, every
value once, parameters and the sorted flag passed to the line builder).
Not decided: byte identity of two runs as such (floats/locale not examined).
"""
import ast

from ..core import AnalysisError
from ..flow import SymEnv, is_param, dump
from ..model import ClassInfo, FuncInfo, walk_no_nested, body_without_docstring
from ..callgraph import CallGraph
from .. import common

MUTATORS = {"append", "extend", "insert", "pop", "remove", "sort", "update", "add",
            "discard", "clear", "setdefault", "popitem", "reverse", "__setitem__",
            "__delitem__"}
FRESH_CALLS = {"list", "dict", "set", "sorted", "tuple", "str", "bytes", "frozenset",
               "defaultdict", "OrderedDict", "deepcopy", "copy", "int", "float",
               "enumerate", "zip", "range", "reversed", "map", "filter", "iter", "repr",
               "len", "min", "max", "sum", "any", "all", "isinstance", "hasattr", "type",
               "to_unicode", "from_unicode", "foldline", "escape_char", "unescape_char",
               "escape_string", "unescape_string", "q_join", "dquote", "param_value",
               "canonsort_keys", "canonsort_items"}
SET_OK_CALLS = {"sorted", "min", "max", "len", "any", "all", "set", "frozenset",
                "isinstance", "sum", "bool", "type", "id"}
HASHSEED_EXEMPT = {
    "cal.Timezone._extract_offsets":
        "de-duplication of transition times; the caller (get_transitions) sorts the result",
}


# ---------------------------------------------------------------------------
class Writes:
    """Per function: through which parameters (by position) or module globals
    it may store into objects that are not fresh in that function."""

    def __init__(self, model):
        self.model = model
        self.cg = CallGraph(model)
        self.summ = {}
        self._visited = set()
        self._alias_of = {}

    def fixpoint(self, f):
        for _ in range(8):
            before = {k: set(v) for k, v in self.summ.items()}
            self._visited = set()
            self.compute(f)
            if before == {k: set(v) for k, v in self.summ.items()}:
                break
        return self.summ.get(f.qualname, {})

    def compute(self, f):
        if f.qualname in self._visited:
            return self.summ.get(f.qualname, {})
        self._visited.add(f.qualname)
        self.summ.setdefault(f.qualname, {})
        res = self._analyse(f)
        self.summ[f.qualname] = res
        return res

    def roots(self, f):
        """name -> set of roots ('p<i>' for parameter i, 'g:<name>' for module
        globals) the name may be derived from; fresh values have no roots."""
        params = [a.arg for a in f.node.args.posonlyargs + f.node.args.args]
        if f.node.args.vararg:
            params.append(f.node.args.vararg.arg)
        if f.node.args.kwarg:
            params.append(f.node.args.kwarg.arg)
        roots = {p: {f"p{i}"} for i, p in enumerate(params)}
        assigns = []            # (target names, value expr)
        for n in walk_no_nested(f.node):
            if isinstance(n, ast.Assign):
                for t in n.targets:
                    assigns.append((t, n.value))
            elif isinstance(n, ast.AugAssign):
                assigns.append((n.target, n.value))
            elif isinstance(n, (ast.For, ast.AsyncFor)):
                assigns.append((n.target, n.iter))
            elif isinstance(n, (ast.ListComp, ast.SetComp, ast.GeneratorExp, ast.DictComp)):
                for g in n.generators:
                    assigns.append((g.target, g.iter))
            elif isinstance(n, ast.With):
                for it in n.items:
                    if it.optional_vars is not None:
                        assigns.append((it.optional_vars, it.context_expr))
        changed = True
        while changed:
            changed = False
            for t, v in assigns:
                r = self.expr_roots(f, v, roots)
                for nm in [x.id for x in ast.walk(t) if isinstance(x, ast.Name)
                           and isinstance(x.ctx, ast.Store)]:
                    cur = roots.setdefault(nm, set())
                    if not r <= cur:
                        cur |= r
                        changed = True
        # identity of the object a name is bound to (a list literal that is later
        # extended with foreign elements is still a fresh list)
        alias = {p: {f"p{i}"} for i, p in enumerate(params)}
        plain = []
        for n in walk_no_nested(f.node):
            if isinstance(n, ast.Assign):
                for t in n.targets:
                    plain.append((t, n.value, False))
            elif isinstance(n, (ast.For, ast.AsyncFor)):
                plain.append((n.target, n.iter, True))
            elif isinstance(n, (ast.ListComp, ast.SetComp, ast.GeneratorExp, ast.DictComp)):
                for g in n.generators:
                    plain.append((g.target, g.iter, True))
        changed = True
        while changed:
            changed = False
            for t, v, is_elem in plain:
                if is_elem:
                    r = self.expr_roots(f, v, roots)
                elif isinstance(v, (ast.List, ast.Tuple, ast.Dict, ast.Set, ast.ListComp,
                                    ast.SetComp, ast.DictComp, ast.GeneratorExp)) and \
                        not isinstance(t, (ast.Tuple, ast.List)):
                    r = set()
                elif isinstance(v, ast.Name):
                    r = set(alias.get(v.id, self.expr_roots(f, v, roots)))
                else:
                    r = self.expr_roots(f, v, roots)
                for nm in [x.id for x in ast.walk(t) if isinstance(x, ast.Name)
                           and isinstance(x.ctx, ast.Store)]:
                    cur = alias.setdefault(nm, set())
                    if not r <= cur:
                        cur |= r
                        changed = True
        self._alias_of[f.qualname] = alias
        return roots, params

    def base_roots(self, f, e, roots):
        """Roots of the object that a store / mutating call on `e` modifies."""
        alias = self._alias_of.get(f.qualname, {})
        if isinstance(e, ast.Name) and e.id in alias:
            return set(alias[e.id])
        return self.expr_roots(f, e, roots)

    def expr_roots(self, f, e, roots):
        """Roots an expression's value may alias."""
        if e is None or isinstance(e, (ast.Constant, ast.JoinedStr, ast.List, ast.Tuple, ast.Dict,
                                       ast.Set, ast.ListComp, ast.SetComp, ast.DictComp,
                                       ast.GeneratorExp, ast.Compare, ast.BoolOp, ast.UnaryOp,
                                       ast.BinOp, ast.Lambda)):
            if isinstance(e, (ast.List, ast.Tuple, ast.Set)):
                out = set()
                for x in e.elts:
                    out |= self.expr_roots(f, x, roots)
                return out
            if isinstance(e, (ast.ListComp, ast.SetComp, ast.GeneratorExp)):
                return self.expr_roots(f, e.elt, roots) | set().union(
                    *[self.expr_roots(f, g.iter, roots) for g in e.generators])
            if isinstance(e, ast.BoolOp):
                out = set()
                for x in e.values:
                    out |= self.expr_roots(f, x, roots)
                return out
            return set()
        if isinstance(e, ast.Name):
            if e.id in roots:
                return set(roots[e.id])
            r = self.model.resolve_name(f.module, e.id)
            if isinstance(r, tuple) and r[0] == "global":
                return {f"g:{r[1].short}.{r[2]}"}
            return set()
        if isinstance(e, (ast.Attribute, ast.Subscript, ast.Starred)):
            return self.expr_roots(f, e.value, roots)
        if isinstance(e, ast.IfExp):
            return self.expr_roots(f, e.body, roots) | self.expr_roots(f, e.orelse, roots)
        if isinstance(e, ast.Call):
            fn = e.func
            for st in self.cg.sites(f):
                if st.node is e and st.kind == "registry" and st.callees and \
                        all(g.name in ("__init__", "__new__") for g in st.callees):
                    return set()        # construction through a registry class
            if isinstance(fn, ast.Name):
                r = self.model.resolve_name(f.module, fn.id)
                if isinstance(r, ClassInfo) or fn.id in FRESH_CALLS:
                    return set()
                if fn.id == "getattr" and len(e.args) >= 1:
                    return self.expr_roots(f, e.args[0], roots)
            if isinstance(fn, ast.Attribute):
                if fn.attr in ("copy", "encode", "decode", "upper", "lower", "strip", "split",
                               "replace", "join", "format", "to_ical", "keys", "sorted_keys",
                               "startswith", "endswith", "isdigit", "strftime", "total_seconds"):
                    return set()
                out = {r for r in self.expr_roots(f, fn.value, roots) if not r.startswith("g:")}
                for a in e.args:
                    out |= self.expr_roots(f, a, roots)
                return out
            out = set()
            for a in e.args:
                out |= self.expr_roots(f, a, roots)
            return out
        return set()

    def _analyse(self, f):
        roots, params = self.roots(f)
        out = {}

        def note(rs, node, what):
            for r in rs:
                out.setdefault((r, (f.qualname, what)), (f, node, what, None))

        for n in walk_no_nested(f.node):
            # direct stores
            tgts = []
            if isinstance(n, ast.Assign):
                tgts = n.targets
            elif isinstance(n, (ast.AugAssign, ast.AnnAssign)):
                tgts = [n.target]
            elif isinstance(n, ast.Delete):
                tgts = n.targets
            for t in tgts:
                for x in ([t] if not isinstance(t, (ast.Tuple, ast.List)) else t.elts):
                    if isinstance(x, (ast.Attribute, ast.Subscript)):
                        rs = self.base_roots(f, x.value, roots)
                        # writes to self.<attr> inside __init__/__new__ initialise a new object
                        if f.name in ("__init__", "__new__") and rs <= {"p0"}:
                            continue
                        if isinstance(x, ast.Attribute) and isinstance(x.value, ast.Name) \
                                and f.name == "__new__" and x.value.id == "self":
                            continue
                        note(rs, n, f"store `{dump(x)[:50]}`")
            if isinstance(n, ast.Call) and isinstance(n.func, ast.Attribute) and n.func.attr in MUTATORS:
                site = None
                for s in self.cg.sites(f):
                    if s.node is n:
                        site = s
                if site is not None and site.callees:
                    pass        # handled as a repo call below
                else:
                    rs = self.base_roots(f, n.func.value, roots)
                    if f.name in ("__init__", "__new__") and rs <= {"p0"}:
                        rs = set()
                    note(rs, n, f"mutating call `{dump(n)[:50]}`")
        # callee summaries
        for s in self.cg.sites(f):
            for g in s.callees:
                gs = self.compute(g)
                if not gs:
                    continue
                call = s.node
                gparams = [a.arg for a in g.node.args.posonlyargs + g.node.args.args]
                # bind actuals
                actual = {}
                off = 0
                if g.cls is not None and g.kind in ("instance", "class") or g.name in ("__init__", "__new__"):
                    # receiver / new object
                    if g.name in ("__init__", "__new__") and not (
                            isinstance(call.func, ast.Attribute) and call.func.attr in ("__init__", "__new__")):
                        actual[0] = "fresh"
                    elif isinstance(call.func, ast.Attribute):
                        actual[0] = call.func.value
                    off = 1
                for i, a in enumerate(call.args):
                    actual[i + off] = a
                for k in call.keywords:
                    if k.arg in gparams:
                        actual[gparams.index(k.arg)] = k.value
                for (r, site), w in gs.items():
                    if r.startswith("g:"):
                        out.setdefault((r, site), (f, call, f"call {g.qualname}", w))
                        continue
                    i = int(r[1:])
                    a = actual.get(i)
                    if a is None or a == "fresh":
                        continue
                    rs = self.base_roots(f, a, roots)
                    for rr in rs:
                        out.setdefault((rr, site), (f, call, f"call {g.qualname}", w))
        return out


def chain_of(w):
    out = []
    n = 0
    while w is not None and n < 10:
        f, node, what, via = w
        out.append(f"{f.qualname}:{getattr(node, 'lineno', '?')} {what}")
        w = via
        n += 1
    return out


def root_of(w):
    n = 0
    while w[3] is not None and n < 50:
        w = w[3]
        n += 1
    return w


# ---------------------------------------------------------------------------
def is_param_like(e, name):
    return isinstance(e, ast.Name) and e.id == name


# ---------------------------------------------------------------------------
def run(ctx):
    m = ctx.model
    ctx.explanation = (
        "write-effect analysis (stores and mutating calls on non-fresh objects, "
        "propagated over the call graph with actual/formal binding) of the "
        "Component.to_ical cone; set-typed values flowing into iteration, "
        "ordered containers or calls; binding of the `sorted` flag on every "
        "call edge between functions that take it; abstract interpretation (E7) of "
        "property_items/content_lines/to_ical on abstract component trees.")
    comp = m.cls("cal.Component")
    # ---- PURE --------------------------------------------------------------
    W = Writes(m)
    f = comp.methods["to_ical"]
    summ = W.fixpoint(f)
    cone = W.cg.cone([f])
    ctx.extra["to_ical_cone_functions"] = len(cone)
    if len(cone) < 40:
        raise AnalysisError(f"to_ical cone has only {len(cone)} functions (60+ confirmed by hand)")
    n = 0
    for (r, site), w in sorted(summ.items(), key=lambda kv: (kv[0][0], kv[0][1])):
        rt = root_of(w)
        n += 1
        ctx.fail("C10/PURE", f"to_ical writes via {('self' if r == 'p0' else r)} @ {rt[0].qualname}: {rt[2][:50]}",
                 f"serialisation stores into an object that outlives the call "
                 f"({rt[2]} in {rt[0].qualname}); path {' <- '.join(chain_of(w)[:6])}",
                 rt[0].loc(rt[1]), witness="value.params before and after to_ical()")
    ctx.ok("C10/PURE", "to_ical cone analysed for stores", f.loc(),
           f"{len(cone)} functions, {n} stores into non-fresh objects")
    # the same for the functions property_items -> content_line(s) use on values
    for cname in [c.name for c in W.cg.codec_classes()]:
        ci = next(c for c in W.cg.codec_classes() if c.name == cname)
        g = ci.methods.get("to_ical")
        if g is None:
            continue
        s = W.fixpoint(g)
        bad = {r: w for (r, site), w in s.items() if r == "p0" or r.startswith("g:")}
        ctx.check(not bad, "C10/PURE", f"{cname}.to_ical does not modify the value",
                  f"{cname}.to_ical stores into the value it renders "
                  f"({'; '.join(root_of(w)[2] for w in bad.values())[:120]}): the tree changes "
                  f"(e.g. value.params, equality) when it is serialised", g.loc(),
                  witness=f"{cname}(x).to_ical() then .params", detail="no store through self")
    # ---- HASHSEED ----------------------------------------------------------
    _hashseed(ctx)
    # ---- SORT-FLAG ---------------------------------------------------------
    _sort_flag(ctx)
    # canonical ordering itself: interpreted (shared with C17, sa.mapmodel)
    from .. import mapmodel
    nc, fc = mapmodel.explore_canon(ctx)
    for (law, desc), detail in sorted(fc.items()):
        ctx.fail("C10/SORT-FLAG", f"{law}: {desc}"[:160], f"{desc} ({detail})",
                 m.func("caselessdict.canonsort_keys").loc(), witness=detail)
    if not fc:
        ctx.ok("C10/SORT-FLAG", "canonical order of sorted_keys / sorted_items / canonsort_*",
               m.func("caselessdict.canonsort_keys").loc(), detail=f"{nc} orderings interpreted")
    common.check_canonical_orders(ctx, "C10/SORT-FLAG")
    # ---- BALANCED / order: property_items, content_lines, to_ical on abstract trees
    from .. import treemodel
    treemodel.report(ctx, "C10/TREE-EMIT", treemodel.explore_emit,
                     "property_items / to_ical emission order and balance",
                     m.func("cal.Component.property_items").loc(), 200)


# ---------------------------------------------------------------------------
def set_typed(m, f):
    """Names of f that hold a set (or a mapping whose values are sets)."""
    sets, setmaps = set(), set()
    set_funcs = set()
    for g in m.all_functions():
        r = g.node.returns
        rs = (r.value if isinstance(r, ast.Constant) else dump(r)) if r is not None else ""
        if str(rs).startswith("set"):
            set_funcs.add(g.name)
    changed = True
    while changed:
        changed = False
        for n in walk_no_nested(f.node):
            pairs = []
            if isinstance(n, ast.Assign) and len(n.targets) == 1 and isinstance(n.targets[0], ast.Name):
                pairs.append((n.targets[0].id, n.value))
            if isinstance(n, ast.AnnAssign) and isinstance(n.target, ast.Name) and n.value is not None:
                pairs.append((n.target.id, n.value))
            for t, v in pairs:
                is_set = isinstance(v, (ast.Set, ast.SetComp)) or (
                    isinstance(v, ast.Call) and isinstance(v.func, ast.Name) and v.func.id in ("set", "frozenset")) or (
                    isinstance(v, ast.Call) and isinstance(v.func, ast.Attribute) and v.func.attr in set_funcs) or (
                    isinstance(v, ast.Call) and isinstance(v.func, ast.Name) and v.func.id in set_funcs) or (
                    isinstance(v, ast.BinOp) and isinstance(v.op, (ast.Sub, ast.BitOr, ast.BitAnd))
                    and (isinstance(v.left, ast.Name) and v.left.id in sets)) or (
                    isinstance(v, ast.Name) and v.id in sets)
                if is_set and t not in sets:
                    sets.add(t)
                    changed = True
                is_setmap = isinstance(v, ast.Call) and isinstance(v.func, ast.Name) \
                    and v.func.id == "defaultdict" and v.args and isinstance(v.args[0], ast.Name) \
                    and v.args[0].id in ("set", "frozenset")
                if is_setmap and t not in setmaps:
                    setmaps.add(t)
                    changed = True
            # for k, v in M.items() / for v in M.values() with M a set-valued mapping
            if isinstance(n, ast.For) and isinstance(n.iter, ast.Call) and isinstance(n.iter.func, ast.Attribute) \
                    and isinstance(n.iter.func.value, ast.Name) and n.iter.func.value.id in setmaps:
                tgt = n.target
                if n.iter.func.attr == "items" and isinstance(tgt, ast.Tuple) and isinstance(tgt.elts[1], ast.Name):
                    if tgt.elts[1].id not in sets:
                        sets.add(tgt.elts[1].id)
                        changed = True
                if n.iter.func.attr == "values" and isinstance(tgt, ast.Name) and tgt.id not in sets:
                    sets.add(tgt.id)
                    changed = True
    return sets, set_funcs


def _callee_param_order_insensitive(m, f, call, argi, _depth=0):
    """The set is handed to a repo function that only tests membership / adds
    (or hands it on, unchanged, to such a function)."""
    fn = call.func
    g = None
    if isinstance(fn, ast.Name):
        r = m.resolve_name(f.module, fn.id)
        g = r if isinstance(r, FuncInfo) else None
    elif isinstance(fn, ast.Attribute) and f.cls is not None:
        g = m.lookup_method(f.cls, fn.attr)
    if g is None or argi >= len(call.args):
        return False
    params = [a.arg for a in g.node.args.args]
    off = 1 if (g.cls is not None and g.kind in ("instance", "class")) else 0
    if argi + off >= len(params):
        return False
    p = params[argi + off]
    for n in walk_no_nested(g.node):
        if isinstance(n, ast.Name) and n.id == p and isinstance(n.ctx, ast.Load):
            pass
    uses_ok = True
    pm = {}
    for x in ast.walk(g.node):
        for c in ast.iter_child_nodes(x):
            pm[c] = x
    for n in ast.walk(g.node):
        if isinstance(n, ast.Name) and n.id == p:
            par = pm.get(n)
            if isinstance(par, ast.Compare) and any(isinstance(o, (ast.In, ast.NotIn)) for o in par.ops) \
                    and n in par.comparators:
                continue
            if isinstance(par, ast.Attribute) and par.attr in ("add", "discard", "update", "remove"):
                continue
            if isinstance(par, ast.arg) or isinstance(n.ctx, ast.Store):
                continue
            # passed on positionally to another repo function that is order-insensitive in it
            if isinstance(par, ast.Call) and n in par.args and _depth < 3 and \
                    _callee_param_order_insensitive(m, g, par, par.args.index(n), _depth + 1):
                continue
            uses_ok = False
    return uses_ok


def _hashseed(ctx):
    m = ctx.model
    n_sites = 0
    n_funcs = 0
    for f in m.all_functions():
        if f.module.short.startswith("timezone.equivalent") or f.module.short in ("cli",):
            continue
        sets, set_funcs = set_typed(m, f)
        n_funcs += 1

        def is_set_expr(e):
            if isinstance(e, ast.Name) and e.id in sets:
                return True
            if isinstance(e, (ast.Set, ast.SetComp)):
                return True
            if isinstance(e, ast.Call):
                if isinstance(e.func, ast.Name) and e.func.id in ("set", "frozenset"):
                    return True
                if isinstance(e.func, ast.Name) and e.func.id in set_funcs:
                    return True
                if isinstance(e.func, ast.Attribute) and e.func.attr in set_funcs:
                    return True
            return False
        leaks = []
        for n in walk_no_nested(f.node):
            if isinstance(n, (ast.For, ast.AsyncFor)) and is_set_expr(n.iter):
                # order-insensitive bodies: only set.add / discard / membership
                leaks.append((n, f"iteration over the set `{dump(n.iter)[:40]}`"))
            if isinstance(n, (ast.ListComp, ast.GeneratorExp, ast.DictComp)):
                for g in n.generators:
                    if is_set_expr(g.iter):
                        leaks.append((n, f"comprehension over the set `{dump(g.iter)[:40]}`"))
            if isinstance(n, ast.Call):
                fn = n.func
                fname = fn.id if isinstance(fn, ast.Name) else fn.attr if isinstance(fn, ast.Attribute) else ""
                for ai, a in enumerate(list(n.args) + [k.value for k in n.keywords]):
                    if is_set_expr(a):
                        if fname in SET_OK_CALLS:
                            continue
                        if _callee_param_order_insensitive(m, f, n, ai):
                            continue
                        if isinstance(fn, ast.Attribute) and fn.attr in (
                                "update", "union", "intersection", "difference", "issubset",
                                "issuperset", "symmetric_difference", "isdisjoint",
                                "difference_update", "intersection_update") :
                            continue
                        leaks.append((n, f"set `{dump(a)[:30]}` passed to `{fname}` (order-sensitive consumer)"))
                if isinstance(fn, ast.Attribute) and fn.attr == "pop" and is_set_expr(fn.value) and not n.args:
                    leaks.append((n, f"`{dump(n)[:40]}` takes an arbitrary element"))
            if isinstance(n, ast.Subscript) and is_set_expr(n.value):
                leaks.append((n, "indexing a set"))
        # wrapped in sorted(...) etc. is fine: drop leaks that sit inside an order-insensitive consumer
        pm = {}
        for p in ast.walk(f.node):
            for c in ast.iter_child_nodes(p):
                pm[c] = p
        for node, what in leaks:
            p = pm.get(node)
            wrapped = False
            while p is not None and not isinstance(p, ast.stmt):
                if isinstance(p, ast.Call) and isinstance(p.func, ast.Name) and p.func.id in SET_OK_CALLS:
                    wrapped = True
                p = pm.get(p)
            if isinstance(node, (ast.SetComp,)):
                wrapped = True
            if wrapped:
                continue
            n_sites += 1
            if f.qualname in HASHSEED_EXEMPT:
                ctx.ok("C10/HASHSEED", f"exempt: {f.qualname}", f.loc(node),
                       HASHSEED_EXEMPT[f.qualname], nontrivial=False)
                continue
            ctx.fail("C10/HASHSEED", f"{f.qualname}: {what[:60]}",
                     f"{what} in {f.qualname}: the order of a set depends on the interpreter's "
                     f"hash seed, and here it flows into an ordered result (subcomponent / "
                     f"property order)", f.loc(node),
                     witness="PYTHONHASHSEED=1 vs 2: different VTIMEZONE / RDATE order")
    ctx.ok("C10/HASHSEED", "package scanned for set-order leaks", None,
           f"{n_funcs} functions; {n_sites} set-order-sensitive sites")
    # hash()/id() must not flow into output
    for f in m.all_functions():
        for c in walk_no_nested(f.node):
            if isinstance(c, ast.Call) and isinstance(c.func, ast.Name) and c.func.id in ("hash", "id") \
                    and f.name not in ("__hash__",):
                ctx.fail("C10/HASHSEED", f"{f.qualname}: {c.func.id}()",
                         f"{c.func.id}() used outside __hash__ in {f.qualname}", f.loc(c))


# ---------------------------------------------------------------------------
def _sort_flag(ctx):
    m = ctx.model
    cg = CallGraph(m)
    takers = {}
    for f in m.all_functions():
        names = [a.arg for a in f.node.args.args + f.node.args.kwonlyargs]
        if "sorted" in names:
            takers[f.qualname] = f
    if len(takers) < 6:
        raise AnalysisError(f"only {len(takers)} functions take a `sorted` flag, 6 confirmed by hand")
    ctx.extra["sorted_flag_functions"] = sorted(takers)
    n_edges = 0
    for q, f in sorted(takers.items()):
        for s in cg.sites(f):
            tg = [g for g in s.callees if g.qualname in takers]
            if not tg:
                continue
            if len(tg) != len(s.callees):
                continue        # protocol method where only some implementations take the flag
            call = s.node
            for g in tg:
                n_edges += 1
                gnames = [a.arg for a in g.node.args.args]
                off = 1 if (g.cls is not None and g.kind in ("instance", "class")) else 0
                bound = None
                for k in call.keywords:
                    if k.arg == "sorted":
                        bound = k.value
                if bound is None and "sorted" in gnames:
                    pos = gnames.index("sorted") - off
                    if 0 <= pos < len(call.args):
                        bound = call.args[pos]
                # something else landing in another parameter positionally?
                stray = [a for i, a in enumerate(call.args)
                         if isinstance(a, ast.Name) and a.id == "sorted"
                         and (i + off >= len(gnames) or gnames[i + off] != "sorted")]
                okb = isinstance(bound, ast.Name) and bound.id == "sorted" and not stray
                ctx.check(okb, "C10/SORT-FLAG", f"{f.qualname} -> {g.qualname} passes the flag",
                          f"`{dump(call)[:70]}` does not bind the caller's `sorted` flag to the "
                          f"callee's `sorted` parameter"
                          f"{' (it lands in `' + gnames[call.args.index(stray[0]) + off] + '`)' if stray and call.args.index(stray[0]) + off < len(gnames) else ''}"
                          f": nested parts are emitted with the default order", f.loc(call),
                          witness="to_ical(sorted=False) on a tree two levels deep",
                          detail="sorted=sorted")
    if n_edges < 6:
        raise AnalysisError(f"only {n_edges} sorted-flag call edges found, 6 confirmed by hand")
    # (property_items itself: decided by C10/TREE-EMIT on abstract trees)
    # Parameters.to_ical: sorted vs insertion order, decided on the function itself (E9)
    from .. import strmodel
    pt = m.own_method("parser.Parameters.to_ical")
    strmodel.report(ctx, "C10/SORT-FLAG", strmodel.explore_params, ["order"], pt.loc(), 300,
                    select=lambda law: law == "order")
