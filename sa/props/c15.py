"""C15 - an alarm is active iff not acknowledged at/after its (snoozed) trigger.

Exhaustive over a finite quotient (E7): the real ASTs of AlarmTime.acknowledged,
AlarmTime.trigger, AlarmTime.is_active, Alarms._alarm_time, Alarms.active and
Alarms.add_component are evaluated by the checker's interpreter on every
combination of presence x weak order x trigger kind x local-timezone setting,
and compared with the decision table written from the property statement.
The functions may observe instants only through None tests, truthiness, order
comparison and max (anything else stops the run with exit 2).
"""
import itertools

from ..core import AnalysisError
from ..absint import (Interp, DT, TD, TZ, Obj, ClassVal, AbsRaise, Unsupported, Native, term_str,
                      Closure, Bound)

ALLOWED_OPS = {"isinstance", "order-compare", "date.tzinfo", "date.replace",
               "datetime.replace", "tzp.localize_utc", "mapping-contains",
               "tzid_from_dt", "date.year", "date.month", "date.day",
               # sub-second fields: interpreted on the quarter-second convention of the order
               # types (run()); a function using them depends on more than the order of the
               # instants, so what is decided for it is the explored model, not a proof
               "date.microsecond", "datetime.replace(microsecond)"}


def weak_orders(names):
    """All weak orders of `names` as dicts name -> rank (0-based)."""
    names = list(names)
    if not names:
        yield {}
        return
    n = len(names)
    seen = set()
    for ranks in itertools.product(range(n), repeat=n):
        used = sorted(set(ranks))
        if used != list(range(len(used))):
            continue
        if ranks in seen:
            continue
        seen.add(ranks)
        yield dict(zip(names, ranks))


def mk_alarm(it, m, ack_rank):
    alarm = it.call(ClassVal(m.cls("cal.Alarm")), [], {})
    if ack_rank is not None:
        v = it.call(ClassVal(m.cls("prop.vDDDTypes")), [DT("utc", ack_rank)], {})
        alarm.items["ACKNOWLEDGED"] = v
    return alarm


def expected(tkind, r, local_tz):
    """Decision table from the statement.  r: ranks of T, A1, A2, S (None =
    absent).  Returns dict(ack=rank|None, trigger=('rank', k)|('error', cls),
    active=True|False|('error', cls))."""
    T, A1, A2, S = r["T"], r.get("A1"), r.get("A2"), r.get("S")
    acks = [x for x in (A1, A2) if x is not None]
    ack = max(acks) if acks else None
    aware = tkind in ("utc", "zoned") or (tkind in ("naive", "date") and local_tz)
    out = {"ack": ack}
    if aware:
        tp = S if (S is not None and S > T) else T
        out["trigger"] = ("rank", tp)
        out["active"] = (ack is None) or (S is not None and S > ack) or (tp > ack)
    else:
        # a floating / date trigger cannot be ordered against UTC instants
        if S is None:
            out["trigger"] = ("rank", T)
        else:
            out["trigger"] = ("error", "LocalTimezoneMissing")
        if ack is None or (S is not None and S > ack):
            out["active"] = True
        else:
            out["active"] = ("error", "LocalTimezoneMissing")
    return out


def run(ctx):
    m = ctx.model
    ctx.explanation = (
        "exhaustive abstract evaluation of the real ASTs of "
        "AlarmTime.acknowledged/.trigger/.is_active and Alarms._alarm_time over "
        "presence (A1, A2, S) x all weak orders of the present instants x "
        "trigger kind (utc, zoned, floating, date) x local time zone set/unset, "
        "against the decision table of the statement; wiring of the "
        "component-level acknowledgement in Alarms.add_component; Alarms.active "
        "as a filter of Alarms.times.")
    ctx.trusted_base = [
        "the checker's interpreter (sa/absint.py) and its semantic table: "
        "naive vs aware and date vs datetime order comparisons raise TypeError, "
        "date has no tzinfo, date.replace(tzinfo=) raises TypeError",
        "contract of tzp.localize_utc: same instant, UTC (naive and date inputs taken as UTC)",
        "instants are observed only through None tests, truthiness, order "
        "comparison and max (checked: any other operation stops the run)",
    ]
    it = Interp(m)
    it_pytz = Interp(m, provider="pytz")
    # the instants of the order types are a quarter of a second apart (four ranks per second):
    # code that drops sub-second precision before comparing is seen to merge distinct instants
    it.subsecond_ranks = it_pytz.subsecond_ranks = True
    at_cls = m.cls("alarms.AlarmTime")
    al_cls = m.cls("alarms.Alarms")
    ncases = 0
    fails = {}
    groups = {}
    for tkind in ("utc", "zoned", "naive", "date"):
        for present in itertools.product([False, True], repeat=3):
            names = ["T"] + [n for n, p in zip(("A1", "A2", "S"), present) if p]
            gkey = f"T={tkind} present={'+'.join(names[1:]) or 'none'}"
            for order in weak_orders(names):
                groups[gkey] = groups.get(gkey, 0) + 1
                for local_tz in ((False, True) if tkind in ("naive", "date") else (False,)):
                    ncases += 1
                    r = dict(order)
                    exp = expected(tkind, r, local_tz)
                    got = evaluate(it, m, at_cls, al_cls, tkind, r, local_tz)
                    case = f"T={tkind} tz={'set' if local_tz else 'unset'} " + \
                        " ".join(f"{k}={r[k]}" if k in r else f"{k}=-" for k in ("T", "A1", "A2", "S"))
                    for field in ("ack", "trigger", "active"):
                        if got[field] != exp[field]:
                            cls = classify(tkind, local_tz, field, got[field], r)
                            fails.setdefault(cls, []).append((case, field, got[field], exp[field]))
                    if local_tz:
                        # the same under the pytz provider (the local zone is the caller's object)
                        got2 = evaluate(it_pytz, m, at_cls, al_cls, tkind, r, local_tz)
                        for field in ("ack", "trigger", "active"):
                            if got2[field] != exp[field]:
                                cls = "[pytz provider] " + classify(tkind, local_tz, field, got2[field], r)
                                fails.setdefault(cls, []).append((case, field, got2[field], exp[field]))
    bad_ops = it.ops_seen - ALLOWED_OPS
    if bad_ops:
        raise AnalysisError(f"the alarm functions use operations outside the abstract "
                            f"interface: {sorted(bad_ops)}")
    subsec = it.ops_seen & {"date.microsecond", "datetime.replace(microsecond)"}
    if subsec:
        ctx.note("the alarm functions read or change sub-second fields: the verdict is that of the "
                 "explored quarter-second model, not a proof over all orderings")
    ctx.extra.update({"abstract_cases": ncases, "exhaustive": not subsec,
                      "interface_ops": sorted(it.ops_seen)})
    for cls, items in sorted(fails.items()):
        case, field, got, exp = items[0]
        ctx.fail("C15/DT-ACTIVE", cls,
                 f"{len(items)} abstract case(s), e.g. [{case}]: {field} = {got}, "
                 f"expected {exp}", at_cls.loc(), witness=case)
    bad_cases = {c[0] for v in fails.values() for c in v}
    for gkey, n in sorted(groups.items()):
        ctx.ok("C15/DT-ACTIVE", gkey, at_cls.loc(),
               f"{n} weak order(s) x local-tz settings evaluated against the decision table")
    ctx.extra["deviating_cases"] = len(bad_cases)
    _sublist(ctx, m, al_cls)
    _history(ctx, m, al_cls)
    _order(ctx, m, al_cls)
    _retained(ctx, m, al_cls)
    _wiring(ctx, m, al_cls)


def classify(tkind, local_tz, field, got, r):
    """Group deviations by cause so that one defect = one finding key."""
    g = got[1] if isinstance(got, tuple) else got
    if tkind in ("utc", "zoned"):
        return f"aware trigger: {field} wrong"
    tz = "local tz set" if local_tz else "no local tz"
    return f"{tkind} trigger, {tz}: {field} -> {g}"


def evaluate(it, m, at_cls, al_cls, tkind, r, local_tz, read_first=False):
    alarm = mk_alarm(it, m, r.get("A1"))
    T = DT(tkind, r["T"], None, "Europe/Berlin" if tkind == "zoned" else None)
    A2 = DT("utc", r["A2"]) if "A2" in r else None
    S = DT("utc", r["S"]) if "S" in r else None
    # through Alarms._alarm_time (applies the local time zone)
    alarms = it.call(ClassVal(al_cls), [], {})
    alarms.attrs["_last_ack"] = A2
    alarms.attrs["_snooze_until"] = S
    # a time zone object supplied by the caller (datetime.timezone / ZoneInfo / ...)
    alarms.attrs["_local_tzinfo"] = TZ("zone", "Local/Zone", "plain") if local_tz else None
    out = {}
    try:
        at = it.call(it.getattr(alarms, "_alarm_time"), [alarm, T], {})
    except AbsRaise as e:
        err = ("error", e.cls_name)
        return {"ack": err, "trigger": err, "active": err}
    except Unsupported as e:
        raise AnalysisError(f"Alarms._alarm_time leaves the abstract interface: {e}")
    for field, how in (("ack", lambda: it.getattr(at, "acknowledged")),
                       ("trigger", lambda: it.getattr(at, "trigger")),
                       ("active", lambda: it.call(it.getattr(at, "is_active"), [], {}))):
        try:
            v = how()
        except AbsRaise as e:
            out[field] = ("error", e.cls_name)
            continue
        except Unsupported as e:
            raise AnalysisError(f"AlarmTime.{field} leaves the abstract interface: {e}")
        if field == "ack":
            out[field] = v.rank if isinstance(v, DT) else v
        elif field == "trigger":
            out[field] = ("rank", v.rank) if isinstance(v, DT) else ("value", repr(v))
        else:
            out[field] = v
    return out


def _sublist(ctx, m, al_cls):
    """Alarms.active is exactly the sub-list of self.times whose is_active() is true - the
    getter interpreted (E7) on real Alarms objects: every sequence of up to three alarms of
    five kinds (trigger before / after the acknowledgement, own later ACKNOWLEDGED, repeating
    across the acknowledgement, the same alarm object added twice)."""
    import itertools
    p = al_cls.properties.get("active", {}).get("get")
    if p is None:
        raise AnalysisError("anchor vanished: Alarms.active")
    vddd = ClassVal(m.cls("prop.vDDDTypes"))
    vdur = ClassVal(m.cls("prop.vDuration"))
    vint = ClassVal(m.cls("prop.vInt"))
    KINDS_ = ("before", "after", "own-ack", "repeat", "same-twice")

    def alarm(it, kind):
        al = it.call(ClassVal(m.cls("cal.Alarm")), [], {})
        rank = {"before": 30, "after": 50, "own-ack": 50, "repeat": 39, "same-twice": 45}[kind]
        al.items["TRIGGER"] = it.call(vddd, [DT("utc", rank, None)], {})
        if kind == "own-ack":
            al.items["ACKNOWLEDGED"] = it.call(vddd, [DT("utc", 60, None)], {})
        if kind == "repeat":
            al.items["REPEAT"] = it.call(vint, [3], {})
            al.items["DURATION"] = it.call(vdur, [TD(term={"D": 1}, mag="subday")], {})
        return al
    n = 0
    bad = None
    seqs = [()] + [s_ for size in (1, 2, 3) for s_ in itertools.product(KINDS_, repeat=size)]
    for seq in seqs:
        it = Interp(m)
        try:
            alarms = it.call(ClassVal(al_cls), [], {})
            it.call(it.getattr(alarms, "acknowledge_until"), [DT("utc", 40, None)], {})
            for kind in seq:
                al = alarm(it, kind)
                it.call(it.getattr(alarms, "add_alarm"), [al], {})
                if kind == "same-twice":
                    it.call(it.getattr(alarms, "add_alarm"), [al], {})
            n += 1
            times = it._as_list(it.getattr(alarms, "times"))
            want = [t for t in times if it.truth(it.call(it.getattr(t, "is_active"), [], {}))]
            # the getter builds its own AlarmTime objects: compare by (alarm object, trigger rank)
            key = lambda t: (id(t.attrs.get("_alarm", t.attrs.get("alarm"))),
                             getattr(t.attrs.get("_trigger"), "rank", None))
            got = it._as_list(it.getattr(alarms, "active"))
            if [key(t) for t in got] != [key(t) for t in want]:
                bad = bad or (seq, f"returns {len(got)} of {len(times)} times, "
                              f"{len(want)} of them answer is_active() with True "
                              f"(triggers {[k[1] for k in map(key, got)]} vs {[k[1] for k in map(key, want)]})")
        except AbsRaise as e:
            bad = bad or (seq, f"raises {e.cls_name}")
        except Unsupported as e:
            raise AnalysisError(f"Alarms.active leaves the abstract interface on alarms {seq}: {e}")
    ctx.check(bad is None, "C15/SUBLIST", "active filters times by is_active",
              f"Alarms.active must be exactly the sub-list of Alarms.times whose is_active() is true "
              f"(same order, nothing added); with the alarms {list(bad[0]) if bad else ''} it "
              f"{bad[1] if bad else ''}", p.loc(),
              detail=f"{n} Alarms objects (0..3 alarms of 5 kinds, acknowledged at a fixed instant)")


def _history(ctx, m, al_cls):
    """Reading .times / .active must not freeze anything: whatever is set
    afterwards (snooze, acknowledgement, local time zone, start, end, another
    alarm) is reflected exactly as on an object that was never read before."""
    vddd = ClassVal(m.cls("prop.vDDDTypes"))

    def fresh(it):
        ev = it.call(ClassVal(m.cls("cal.Event")), [], {})
        ev.items["DTSTART"] = it.call(vddd, [DT("utc", 10, None)], {})
        ev.items["DTEND"] = it.call(vddd, [DT("utc", 20, None)], {})
        al = it.call(ClassVal(m.cls("cal.Alarm")), [], {})
        al.items["TRIGGER"] = it.call(vddd, [TD(term={"T": 1}, mag="subday")], {})
        ev.attrs["subcomponents"].append(al)
        return it.call(ClassVal(al_cls), [ev], {})

    def extra_alarm(it):
        al = it.call(ClassVal(m.cls("cal.Alarm")), [], {})
        al.items["TRIGGER"] = it.call(vddd, [DT("utc", 30, None)], {})
        return al
    mutators = [("acknowledge_until", lambda it: [DT("utc", 40, None)]),
                ("snooze_until", lambda it: [DT("utc", 50, None)]),
                ("acknowledge_until then snooze_until", None),
                ("set_local_timezone", lambda it: [TZ("zone", "Local/Zone", "plain")]),
                ("set_start", lambda it: [DT("utc", 11, None)]),
                ("set_end", lambda it: [DT("utc", 21, None)]),
                ("add_alarm", lambda it: [extra_alarm(it)])]
    # withdrawing a setting (None) after it was set and read: nothing of the old setting may stay
    withdraw = [("acknowledge_until(t), read, acknowledge_until(None)", "acknowledge_until", DT("utc", 40, None)),
                ("snooze_until(t), read, snooze_until(None)", "snooze_until", DT("utc", 50, None)),
                ("acknowledge_until(t) + snooze_until(u), read, snooze_until(None)", "snooze_until", DT("utc", 50, None)),
                ("acknowledge_until(t) + snooze_until(u), read, acknowledge_until(None)", "acknowledge_until", DT("utc", 40, None))]

    def observe(it, alarms):
        out = []
        for attr in ("times", "active"):
            try:
                v = it.getattr(alarms, attr)
                row = []
                for at in v:
                    try:
                        t = it.getattr(at, "trigger")
                        row.append((t.rank, term_str(t.term)) if isinstance(t, DT) else repr(t))
                    except AbsRaise as e:
                        row.append("!" + e.cls_name)
                out.append(row)
            except AbsRaise as e:
                out.append("!" + e.cls_name)
        return out

    def apply(it, alarms, name, mk):
        if mk is None:
            it.call(it.getattr(alarms, "acknowledge_until"), [DT("utc", 40, None)], {})
            it.call(it.getattr(alarms, "snooze_until"), [DT("utc", 50, None)], {})
        else:
            it.call(it.getattr(alarms, name), mk(it), {})
    for name, mk in mutators:
        try:
            it1 = Interp(m)
            a1 = fresh(it1)
            observe(it1, a1)                 # read first
            apply(it1, a1, name, mk)
            got = observe(it1, a1)
            it2 = Interp(m)
            a2 = fresh(it2)
            apply(it2, a2, name, mk)
            want = observe(it2, a2)
        except AbsRaise as e:
            ctx.fail("C15/HISTORY", f"{name} after reading", f"{name} raises {e.cls_name}", al_cls.loc())
            continue
        except Unsupported as e:
            raise AnalysisError(f"Alarms history check leaves the abstract interface ({name}): {e}")
        ctx.check(got == want, "C15/HISTORY", f"{name} after reading times/active",
                  f"after .times/.active were read, {name} gives times/active {got}; an object that was "
                  f"never read gives {want} (a stale cached result)", al_cls.loc(),
                  detail="same as on a fresh object")


    for name, meth, val in withdraw:
        both = name.startswith("acknowledge_until(t) + ")
        try:
            res = []
            for read_between in (True, False):
                it = Interp(m)
                a = fresh(it)
                if both:
                    it.call(it.getattr(a, "acknowledge_until"), [DT("utc", 40, None)], {})
                    it.call(it.getattr(a, "snooze_until"), [DT("utc", 50, None)], {})
                else:
                    it.call(it.getattr(a, meth), [val], {})
                if read_between:
                    observe(it, a)
                it.call(it.getattr(a, meth), [None], {})
                res.append(observe(it, a))
        except AbsRaise as e:
            ctx.fail("C15/HISTORY", name, f"raises {e.cls_name}", al_cls.loc())
            continue
        except Unsupported as e:
            raise AnalysisError(f"Alarms history check leaves the abstract interface ({name}): {e}")
        ctx.check(res[0] == res[1], "C15/HISTORY", name,
                  f"{name}: times/active are {res[0]}; without the read in between they are {res[1]} "
                  f"(the withdrawn setting is still applied: a stale cached result)", al_cls.loc(),
                  detail="same as without the read")


def _retained(ctx, m, al_cls):
    """An AlarmTime object that a caller keeps answers for the alarm as it is *now*: after the
    alarm's ACKNOWLEDGED is set, moved or removed, is_active()/acknowledged on the retained object
    equal those of a freshly computed one (nothing computed earlier is frozen)."""
    vddd = ClassVal(m.cls("prop.vDDDTypes"))

    def setup(it):
        ev = it.call(ClassVal(m.cls("cal.Event")), [], {})
        ev.items["DTSTART"] = it.call(vddd, [DT("utc", 10, None)], {})
        al = it.call(ClassVal(m.cls("cal.Alarm")), [], {})
        al.items["TRIGGER"] = it.call(vddd, [DT("utc", 50, None)], {})
        ev.attrs["subcomponents"].append(al)
        return it.call(ClassVal(al_cls), [ev], {}), al

    def answers(it, at):
        out = []
        for attr, call in (("acknowledged", False), ("is_active", True)):
            try:
                v = it.getattr(at, attr)
                v = it.call(v, [], {}) if call else v
                out.append(v.rank if isinstance(v, DT) else v)
            except AbsRaise as e:
                out.append("!" + e.cls_name)
        return out
    edits = [("ACKNOWLEDGED set after the trigger", None, 60), ("ACKNOWLEDGED moved before the trigger", 60, 40),
             ("ACKNOWLEDGED removed", 60, None)]
    for label, first, then in edits:
        it = Interp(m)
        try:
            alarms, al = setup(it)
            if first is not None:
                al.items["ACKNOWLEDGED"] = it.call(vddd, [DT("utc", first, None)], {})
            kept = it._as_list(it.getattr(alarms, "times"))[0]
            answers(it, kept)                       # the caller looks at it once
            if then is None:
                al.items.pop("ACKNOWLEDGED", None)
            else:
                al.items["ACKNOWLEDGED"] = it.call(vddd, [DT("utc", then, None)], {})
            got = answers(it, kept)
            want = answers(it, it._as_list(it.getattr(alarms, "times"))[0])
        except AbsRaise as e:
            ctx.fail("C15/HISTORY", f"retained AlarmTime: {label}", f"raises {e.cls_name}", al_cls.loc())
            continue
        except Unsupported as e:
            raise AnalysisError(f"retained AlarmTime check leaves the abstract interface ({label}): {e}")
        ctx.check(got == want, "C15/HISTORY", f"retained AlarmTime: {label}",
                  f"{label}: an AlarmTime that was read before the change answers (acknowledged, is_active) = "
                  f"{got}, a freshly computed one {want}: an answer computed before the change is kept",
                  m.cls("alarms.AlarmTime").loc(), detail="same as a fresh AlarmTime")


def _order(ctx, m, al_cls):
    """Settings that add_component does not define are independent of it: setting the snooze
    time, the local time zone or another alarm before the component is added gives the same
    times/active as setting them afterwards (add_component of a component without X-MOZ
    properties defines parent, start, end and the acknowledgement only)."""
    vddd = ClassVal(m.cls("prop.vDDDTypes"))

    def event(it, stamp=True):
        ev = it.call(ClassVal(m.cls("cal.Event")), [], {})
        ev.items["DTSTART"] = it.call(vddd, [DT("utc", 10, None)], {})
        ev.items["DTEND"] = it.call(vddd, [DT("utc", 20, None)], {})
        if stamp:
            ev.items["DTSTAMP"] = it.call(vddd, [DT("utc", 40, None)], {})
        al = it.call(ClassVal(m.cls("cal.Alarm")), [], {})
        al.items["TRIGGER"] = it.call(vddd, [TD(term={"T": 1}, mag="subday")], {})
        ev.attrs["subcomponents"].append(al)
        return ev

    def extra_alarm(it):
        al = it.call(ClassVal(m.cls("cal.Alarm")), [], {})
        al.items["TRIGGER"] = it.call(vddd, [DT("utc", 60, None)], {})
        return al

    def observe(it, alarms):
        out = []
        for attr in ("times", "active"):
            try:
                row = []
                for at in it._as_list(it.getattr(alarms, attr)):
                    try:
                        t = it.getattr(at, "trigger")
                        row.append((t.rank, term_str(t.term)) if isinstance(t, DT) else repr(t))
                    except AbsRaise as e:
                        row.append("!" + e.cls_name)
                out.append(sorted(row, key=repr))
            except AbsRaise as e:
                out.append("!" + e.cls_name)
        return out
    settings = [("snooze_until(t)", "snooze_until", lambda it: [DT("utc", 50, None)]),
                ("snooze_until(t) [component without DTSTAMP]", "snooze_until", lambda it: [DT("utc", 50, None)]),
                ("set_local_timezone(tz)", "set_local_timezone", lambda it: [TZ("zone", "Local/Zone", "plain")]),
                ("add_alarm(absolute alarm)", "add_alarm", lambda it: [extra_alarm(it)])]
    for label, meth, mk in settings:
        res = []
        try:
            for first in (True, False):
                it = Interp(m)
                alarms = it.call(ClassVal(al_cls), [], {})
                ev = event(it, stamp="without DTSTAMP" not in label)
                if first:
                    it.call(it.getattr(alarms, meth), mk(it), {})
                    it.call(it.getattr(alarms, "add_component"), [ev], {})
                else:
                    it.call(it.getattr(alarms, "add_component"), [ev], {})
                    it.call(it.getattr(alarms, meth), mk(it), {})
                res.append(observe(it, alarms))
        except AbsRaise as e:
            ctx.fail("C15/HISTORY", f"{label} before add_component", f"raises {e.cls_name}", al_cls.loc())
            continue
        except Unsupported as e:
            raise AnalysisError(f"Alarms order check leaves the abstract interface ({label}): {e}")
        ctx.check(res[0] == res[1], "C15/HISTORY", f"{label} before or after add_component",
                  f"{label} followed by add_component(event) gives times/active {res[0]}; "
                  f"add_component(event) followed by {label} gives {res[1]}: add_component discards "
                  f"a setting it does not define", al_cls.loc(), detail="same either way")


def _wiring(ctx, m, al_cls):
    """Which component properties feed the component-level acknowledgement
    and snooze, for Thunderbird and other components (E7 on add_component)."""
    it = Interp(m)
    # the public setters normalise to UTC whatever they are given
    for meth, attr in (("acknowledge_until", "_last_ack"), ("snooze_until", "_snooze_until")):
        for kind in ("naive", "zoned", "utc", "date"):
            al = it.call(ClassVal(al_cls), [], {})
            try:
                it.call(it.getattr(al, meth), [DT(kind, 5, None, "Europe/Berlin" if kind == "zoned" else None)], {})
            except Unsupported as e:
                raise AnalysisError(f"Alarms.{meth} leaves the abstract interface: {e}")
            v = al.attrs.get(attr)
            ctx.check(isinstance(v, DT) and v.kind == "utc" and v.rank == 5, "C15/WIRING",
                      f"Alarms.{meth}(<{kind}>) stores UTC",
                      f"Alarms.{meth} given a {kind} value stores {v!r}; component-level "
                      f"instants must be kept in UTC (they are compared with UTC "
                      f"ACKNOWLEDGED values)", al_cls.loc(), detail=repr(v))
        al = it.call(ClassVal(al_cls), [], {})
        it.call(it.getattr(al, meth), [None], {})
        ctx.check(al.attrs.get(attr) is None, "C15/WIRING", f"Alarms.{meth}(None) clears",
                  f"Alarms.{meth}(None) must clear the value", al_cls.loc(), detail="None")
    vddd = ClassVal(m.cls("prop.vDDDTypes"))
    vtext = ClassVal(m.cls("prop.vText"))
    for comp_q in ("cal.Event", "cal.Todo"):
        ci = m.cls(comp_q)
        for tb in (False, True):
            for has in itertools.product([False, True], repeat=3):
                stamp, lastack, snooze = has
                comp = it.call(ClassVal(ci), [], {})
                comp.items["DTSTART"] = it.call(vddd, [DT("utc", 0)], {})
                if tb:
                    comp.items["X-MOZ-GENERATION"] = it.call(vtext, ["1"], {})
                if stamp:
                    comp.items["DTSTAMP"] = it.call(vddd, [DT("utc", 10, tag="DTSTAMP")], {})
                if lastack:
                    comp.items["X-MOZ-LASTACK"] = it.call(vddd, [DT("utc", 20, tag="LASTACK")], {})
                if snooze:
                    comp.items["X-MOZ-SNOOZE-TIME"] = it.call(vddd, [DT("utc", 30, tag="SNOOZE")], {})
                is_tb = tb or lastack or snooze
                try:
                    alarms = it.call(ClassVal(al_cls), [comp], {})
                except AbsRaise as e:
                    ctx.fail("C15/WIRING", f"{ci.name} tb={is_tb} stamp={stamp} lastack={lastack} snooze={snooze}",
                             f"Alarms({ci.name}) raised {e.cls_name}", al_cls.loc())
                    continue
                except Unsupported as e:
                    raise AnalysisError(f"Alarms.add_component leaves the abstract interface: {e}")
                la, sn = alarms.attrs.get("_last_ack"), alarms.attrs.get("_snooze_until")
                got = (la.tag if isinstance(la, DT) else la, la.kind if isinstance(la, DT) else None,
                       sn.tag if isinstance(sn, DT) else sn, sn.kind if isinstance(sn, DT) else None)
                if is_tb:
                    exp = ("LASTACK" if lastack else None, "utc" if lastack else None,
                           "SNOOZE" if snooze else None, "utc" if snooze else None)
                else:
                    exp = ("DTSTAMP" if stamp else None, "utc" if stamp else None, None, None)
                ctx.check(got == exp, "C15/WIRING",
                          f"{ci.name} thunderbird={is_tb} DTSTAMP={stamp} LASTACK={lastack} SNOOZE={snooze}",
                          f"component-level (acknowledged-until, kind, snooze-until, kind) "
                          f"= {got}, expected {exp}: Thunderbird components use "
                          f"X-MOZ-LASTACK / X-MOZ-SNOOZE-TIME, all others DTSTAMP, in UTC",
                          al_cls.loc(), detail=str(got))
