"""C02 - a calendar built through the API survives serialise and parse intact.

Decided: TYPE-TABLE (every RFC property name maps to the codec family the RFC
assigns), VALUE-TAG (E7: VALUE/TZID parameters produced by the real
add/_encode/constructor/descriptor ASTs for every date/time-family name x
value kind), LIST-FORWARD (list wrapper forwards what element wrappers
derive), ACCUM (repeated adds accumulate in insertion order).
Not decided: equality of decoded Python values; arbitrary parameter content.
"""
import ast

from ..core import AnalysisError
from ..absint import (Interp, DT, TD, Obj, ClassVal, AbsRaise, Unsupported, TimeVal)
from ..model import ClassInfo, walk_no_nested
from ..oracles import rfc

DATE_FAMILY = {"DATE", "DATE-TIME", "DURATION", "PERIOD", "TIME"}


def class_caps(ctx):
    """class name -> set of RFC value types its from_ical decodes."""
    m = ctx.model
    caps = {k: {v} for k, v in rfc.CLASS_VALUE_TYPE.items()}
    from .. import codecmodel
    ddd = codecmodel.ddd_capabilities(ctx)
    caps["vDDDTypes"] = ddd
    caps["vDDDLists"] = {"LIST:" + t for t in ddd}
    caps["vInline"] = {"TEXT"}
    return caps


def run(ctx):
    m = ctx.model
    ctx.explanation = (
        "table agreement of TypesFactory.types_map (through the registry) with "
        "the RFC 5545 3.7/3.8 property table; abstract evaluation of "
        "Component.add/_encode, the value constructors and the descriptor "
        "setters over value kinds, reading the VALUE/TZID parameters they "
        "attach; parameter keys forwarded by the list wrapper; accumulation "
        "order of repeated adds.")
    ctx.assume("tzid_from_dt contract: None / 'UTC' / zone key for naive / UTC / zoned values")
    _type_table(ctx)
    _value_tag(ctx)
    # (vDDDLists forwarding VALUE/TZID: decided by C02/VALUE-TAG on RDATE/EXDATE lists)
    _accum(ctx)
    from .c03 import layout_rule
    layout_rule(ctx, "C02/LAYOUT")
    _tzid_read(ctx)
    # parameters supplied through the API are read back unchanged (E9 string model, shared with C05/C08)
    from .. import strmodel
    strmodel.report(ctx, "C02/PARAM-WIRE", strmodel.explore_params_extended, ["line round trip", "round trip"],
                    m.own_method("parser.Parameters.to_ical").loc(), 300,
                    select=lambda law: law in ("line round trip", "round trip"))
    # numbers, positions, booleans ... supplied through the API decode to equal values
    codecmodel_ = __import__("sa.codecmodel", fromlist=["x"])
    codecmodel_.report(ctx, "C02/SCALARS", codecmodel_.explore_scalars, codecmodel_.SCALAR_LAWS,
                       m.cls("prop.vFloat").loc(), 30)
    # the nesting survives serialisation in every mode (sorted or insertion order): tree model
    from .. import treemodel
    treemodel.report(ctx, "C02/TREE-EMIT", treemodel.explore_emit,
                     "every component, property and value of the tree is emitted, sorted or not",
                     m.func("cal.Component.property_items").loc(), 200)
    # every date/time/duration/period text of a property is decoded as the type its grammar says
    from .. import codecmodel
    codecmodel.report(ctx, "C02/DISPATCH", codecmodel.explore_dispatch, ["classification", "composite"],
                      m.cls("prop.vDDDTypes").loc(), 100)


# ---------------------------------------------------------------------------
def _type_table(ctx):
    m = ctx.model
    caps = class_caps(ctx)
    tf = m.cls("prop.TypesFactory")
    for name, (default, alts, is_list) in sorted(rfc.PROPERTY_TYPES.items()):
        ci = m.class_for_property(name)
        have = caps.get(ci.name if ci else "", set())
        need = {default} | {a for a in alts if a in DATE_FAMILY}
        if name in ("RDATE", "EXDATE"):
            need = {"LIST:" + t for t in need}
        if name in ("CATEGORIES",):
            need = {"TEXT-LIST"}
        ok = ci is not None and need <= have
        if name == "RESOURCES" and ci is not None and have & {"TEXT", "TEXT-LIST"}:
            ok = True
        ctx.check(ok, "C02/TYPE-TABLE", f"{name} -> {default}",
                  f"RFC 5545 gives {name} the value type {default}"
                  f"{' (alternatives ' + ', '.join(alts) + ')' if alts else ''}"
                  f"{' as a list' if is_list else ''}; types_map sends it to "
                  f"{ci.name if ci else None}, which decodes {sorted(have)}", tf.loc(),
                  detail=f"{ci.name if ci else None}")
    ctx.floor("C02/TYPE-TABLE", 47)


# ---------------------------------------------------------------------------
def params_of(it, v):
    """(VALUE, TZID) carried by a stored value as serialisation would see it."""
    if isinstance(v, list):
        return [params_of(it, x) for x in v]
    p = None
    if isinstance(v, Obj):
        p = v.attrs.get("params")
    if p is None or not isinstance(p, Obj) or p.items is None:
        return (None, None)
    return (p.items.get("VALUE"), p.items.get("TZID"))


def value_kinds():
    zone = "Europe/Berlin"
    return {
        "date": (lambda: DT("date"), "DATE", None),
        "naive": (lambda: DT("naive"), "DATE-TIME", None),
        "utc": (lambda: DT("utc"), "DATE-TIME", None),
        "zoned": (lambda: DT("zoned", zone=zone), "DATE-TIME", zone),
        "duration": (lambda: TD(term={"D": 1}, mag="subday"), "DURATION", None),
        "period-utc": (lambda: (DT("utc", 1), DT("utc", 2)), "PERIOD", None),
        "period-zoned": (lambda: (DT("zoned", 1, zone=zone), DT("zoned", 2, zone=zone)), "PERIOD", zone),
        "period-dur": (lambda: (DT("utc", 1), TD(term={"D": 1}, mag="subday")), "PERIOD", None),
    }


# which value kinds the RFC allows under which property (date/time family)
ALLOWED = {
    "DTSTART": ["date", "naive", "utc", "zoned"], "DTEND": ["date", "naive", "utc", "zoned"],
    "DUE": ["date", "naive", "utc", "zoned"], "RECURRENCE-ID": ["date", "naive", "utc", "zoned"],
    "COMPLETED": ["utc"], "CREATED": ["utc", "zoned", "naive"],
    "DTSTAMP": ["utc", "zoned", "naive"], "LAST-MODIFIED": ["utc", "zoned", "naive"],
    "ACKNOWLEDGED": ["utc", "zoned", "naive"],
    "DURATION": ["duration"], "TRIGGER": ["duration", "utc"],
    "EXDATE": ["date", "naive", "utc", "zoned"],
    "RDATE": ["date", "naive", "utc", "zoned", "period-utc", "period-zoned", "period-dur"],
    "FREEBUSY": ["period-utc", "period-dur"],
}


def _value_tag(ctx):
    m = ctx.model
    it = Interp(m)
    kinds = value_kinds()
    comp_cls = {"TRIGGER": "cal.Alarm", "ACKNOWLEDGED": "cal.Alarm", "DUE": "cal.Todo",
                "COMPLETED": "cal.Todo", "FREEBUSY": "cal.FreeBusy"}
    n = 0
    for name, allowed in sorted(ALLOWED.items()):
        default, alts, is_list = rfc.PROPERTY_TYPES[name]
        ci = m.cls(comp_cls.get(name, "cal.Event"))
        for kind in allowed:
            mk, rfc_type, zone = kinds[kind]
            lists = (False, True) if name in ("RDATE", "EXDATE") else (False,)
            if name == "RDATE" and kind.startswith("period"):
                lists = (True,)      # a single period is passed as a one-element list
            for as_list in lists:
                comp = it.call(ClassVal(ci), [], {})
                value = [mk(), mk()] if as_list else mk()
                key = f"add {name} <{kind}{' list' if as_list else ''}>"
                try:
                    it.call(it.getattr(comp, "add"), [name.lower(), value], {})
                except AbsRaise as e:
                    ctx.fail("C02/VALUE-TAG", key, f"Component.add raised {e.cls_name} "
                             f"({e.msg}) for a value kind RFC 5545 allows under {name}", ci.loc())
                    continue
                except Unsupported as e:
                    raise AnalysisError(f"Component.add leaves the abstract interface [{key}]: {e}")
                stored = comp.items.get(name)
                got = params_of(it, stored)
                utc_forced = name in rfc.UTC_ONLY
                exp_value = rfc_type if rfc_type != default else None
                exp_tzid = None if utc_forced else zone
                got_value = got[0] if not isinstance(got, list) else got[0][0]
                got_tzid = got[1] if not isinstance(got, list) else got[0][1]
                n += 1
                okv = (got_value or None) == exp_value or (exp_value is None and got_value == default)
                ctx.check(okv, "C02/VALUE-TAG", key + " VALUE",
                          f"{name} holding a {rfc_type} value is emitted with "
                          f"VALUE={got_value!r}; RFC default type of {name} is {default}, "
                          f"so the line must carry VALUE={exp_value!r}", ci.loc(),
                          witness=f"component.add({name.lower()!r}, <{kind}>)",
                          detail=f"VALUE={got_value!r}")
                ctx.check(got_tzid == exp_tzid, "C02/VALUE-TAG", key + " TZID",
                          f"{name} holding a {kind} value is emitted with TZID={got_tzid!r}, "
                          f"expected {exp_tzid!r}", ci.loc(), detail=f"TZID={got_tzid!r}")
    # descriptor setters store the same tags as add()
    for cq, attr, name, kind in (("cal.Event", "DTSTART", "DTSTART", "date"),
                                 ("cal.Event", "DTEND", "DTEND", "zoned"),
                                 ("cal.Todo", "DUE", "DUE", "date"),
                                 ("cal.Alarm", "TRIGGER", "TRIGGER", "utc"),
                                 ("cal.Alarm", "TRIGGER", "TRIGGER", "duration"),
                                 ("cal.Event", "start", "DTSTART", "zoned"),
                                 ("cal.Event", "end", "DTEND", "date")):
        ci = m.cls(cq)
        comp = it.call(ClassVal(ci), [], {})
        mk, rfc_type, zone = kinds[kind]
        default = rfc.PROPERTY_TYPES[name][0]
        try:
            it.setattr(comp, attr, mk())
        except (AbsRaise, Unsupported) as e:
            raise AnalysisError(f"{cq}.{attr} = <{kind}>: {e}")
        got = params_of(it, comp.items.get(name))
        exp_value = rfc_type if rfc_type != default else None
        ctx.check((got[0] or None) == exp_value and got[1] == zone, "C02/VALUE-TAG",
                  f"{ci.name}.{attr} = <{kind}>",
                  f"setter stores VALUE={got[0]!r}, TZID={got[1]!r}; expected "
                  f"VALUE={exp_value!r}, TZID={zone!r}", ci.loc(), detail=str(got))
    # re-assignment: the tags describe the value stored now, whatever was stored before
    for cq, attr, name in (("cal.Event", "DTSTART", "DTSTART"), ("cal.Event", "DTEND", "DTEND"),
                           ("cal.Todo", "DUE", "DUE"), ("cal.Event", "start", "DTSTART"),
                           ("cal.Event", "end", "DTEND"), ("cal.Alarm", "TRIGGER", "TRIGGER")):
        ci = m.cls(cq)
        default = rfc.PROPERTY_TYPES[name][0]
        seq = (("zoned", "utc"), ("date", "naive"), ("zoned", "date"), ("utc", "zoned")) \
            if name != "TRIGGER" else (("utc", "duration"), ("duration", "utc"))
        for first, second in seq:
            comp = it.call(ClassVal(ci), [], {})
            try:
                it.setattr(comp, attr, kinds[first][0]())
                it.setattr(comp, attr, kinds[second][0]())
            except AbsRaise as e:
                # e.g. an end of another type than the stored start: refused, fine
                continue
            except Unsupported as e:
                raise AnalysisError(f"{cq}.{attr} = <{first}> then <{second}>: {e}")
            got = params_of(it, comp.items.get(name))
            mk, rfc_type, zone = kinds[second]
            exp_value = rfc_type if rfc_type != default else None
            ctx.check((got[0] or None) == exp_value and got[1] == zone, "C02/VALUE-TAG",
                      f"{ci.name}.{attr} = <{first}> then <{second}>",
                      f"after re-assigning, the stored value carries VALUE={got[0]!r}, TZID={got[1]!r}; "
                      f"the value now stored needs VALUE={exp_value!r}, TZID={zone!r} (parameters of the "
                      f"previous value leak onto the new one)", ci.loc(), detail=str(got))
    ctx.extra["value_tag_cases"] = n


# ---------------------------------------------------------------------------
def _param_keys_written(f, model):
    """Upper-cased parameter keys a constructor writes into self.params."""
    keys = set()
    for n in ast.walk(f.node):
        if isinstance(n, ast.Call) and isinstance(n.func, ast.Name) \
                and n.func.id == "Parameters" and n.args and isinstance(n.args[0], ast.Dict):
            for k in n.args[0].keys:
                if isinstance(k, ast.Constant):
                    keys.add(str(k.value).upper())
        if isinstance(n, ast.Call) and isinstance(n.func, ast.Attribute) \
                and n.func.attr == "update" and n.args and isinstance(n.args[0], ast.Dict):
            for k in n.args[0].keys:
                if isinstance(k, ast.Constant):
                    keys.add(str(k.value).upper())
        if isinstance(n, ast.Subscript) and isinstance(n.ctx, ast.Store) \
                and isinstance(n.value, ast.Attribute) and n.value.attr == "params" \
                and isinstance(n.slice, ast.Constant):
            keys.add(str(n.slice.value).upper())
    return keys


def _list_forward(ctx):
    m = ctx.model
    el = m.own_method("prop.vDDDTypes.__init__")
    ls = m.own_method("prop.vDDDLists.__init__")
    derived = _param_keys_written(el, m)
    forwarded = _param_keys_written(ls, m)
    ctx.extra["element_param_keys"] = sorted(derived)
    ctx.extra["list_param_keys"] = sorted(forwarded)
    for k in sorted(derived):
        ctx.check(k in forwarded, "C02/LIST-FORWARD", f"vDDDLists forwards {k}",
                  f"vDDDTypes derives the {k} parameter from the Python value but "
                  f"vDDDLists (RDATE/EXDATE) never sets it: a list of dates is "
                  f"emitted without {k}", ls.loc(),
                  witness="event.add('rdate', [date(2020,1,1)]) -> RDATE:20200101",
                  detail="forwarded")
    if len(derived) < 2:
        raise AnalysisError("vDDDTypes.__init__ derives fewer parameter keys than expected")


# ---------------------------------------------------------------------------
def _accum(ctx):
    m = ctx.model
    it = Interp(m)
    ci = m.cls("cal.Event")
    for old, new in (("none", "single"), ("single", "single"), ("single", "list"),
                     ("list", "single"), ("list", "list"), ("single", "single-single")):
        comp = it.call(ClassVal(ci), [], {})
        seq = []

        def add(tag, as_list):
            val = [f"{tag}1", f"{tag}2"] if as_list else f"{tag}1"
            it.call(it.getattr(comp, "add"), ["comment", val], {})
            seq.extend(val if as_list else [val])
        if old != "none":
            add("a", old == "list")
        add("b", new == "list")
        if new == "single-single":
            add("c", False)
        stored = comp.items.get("COMMENT")
        got = [it._str(x) for x in (stored if isinstance(stored, list) else [stored])]
        ctx.check(got == seq, "C02/ACCUM", f"existing={old} added={new}",
                  f"after the adds the property holds {got}, expected {seq} "
                  f"(insertion order, earlier values first)", ci.loc(), detail=str(seq))
    # values that are false in a boolean test (empty text, 0) are values like any other
    vint = m.cls("prop.vInt")
    for label, first, rest in (("'' then text", "", ["b1"]), ("'' then list", "", [["b1", "b2"]]),
                               ("'' twice then text", "", ["", "c1"]),
                               ("vInt(0) then vInt(25), vInt(0)", 0, [25, 0])):
        comp = it.call(ClassVal(ci), [], {})
        want = []

        def put(v):
            if isinstance(v, int):
                it.call(it.getattr(comp, "add"), ["x-checkpoint", it.call(ClassVal(vint), [v], {})],
                        {"encode": False})
                want.append(str(v))
            else:
                it.call(it.getattr(comp, "add"), ["comment", v], {})
                want.extend(v if isinstance(v, list) else [v])
        try:
            put(first)
            for r in rest:
                put(r)
        except (AbsRaise, Unsupported) as e:
            raise AnalysisError(f"Component.add with a falsy first value ({label}): {e}")
        stored = comp.items.get("COMMENT" if not isinstance(first, int) else "X-CHECKPOINT")
        got = [it._str(x) for x in (stored if isinstance(stored, list) else [stored])]
        ctx.check(got == want, "C02/ACCUM", f"falsy existing value: {label}",
                  f"after the adds the property holds {got}, expected {want}: a value that is "
                  f"false in a boolean test (empty text, 0) was treated as absent", ci.loc(),
                  detail=str(want))


def _tzid_read(ctx):
    """Every property under which the writer can emit a TZID is read back
    with that TZID (the parse loop forwards it to the decoder)."""
    from .c11 import tzid_forward_names
    m = ctx.model
    names, freebusy_fwd, fi = tzid_forward_names(ctx)
    writer_tz_classes = {"vDDDTypes", "vDDDLists", "vPeriod"}
    for name in sorted(set(rfc.TZID_ADMITTING) | {"FREEBUSY"}):
        ci = m.class_for_property(name)
        if ci is None or ci.name not in writer_tz_classes:
            continue
        fwd = name in names or (name == "FREEBUSY" and freebusy_fwd)
        ctx.check(fwd, "C02/TZID-READ", f"{name} TZID forwarded on parse",
                  f"{name} values are written with a TZID parameter by {ci.name}, but "
                  f"Component.from_ical does not pass the TZID to the decoder for "
                  f"{name}: the value is read back naive", fi.loc(),
                  witness=f"add({name.lower()!r}, <zoned>) -> to_ical -> from_ical",
                  detail="forwarded")
