"""E8 - specification tables written from the RFCs (not copied from the repo).
A disagreement between these and the repository is a finding against the
repository; each table cites its section."""

# RFC 5545 section 3.7 / 3.8: property -> (default value type, alternatives,
# list-valued on one line?)  + ACKNOWLEDGED from RFC 9074 section 6.1
PROPERTY_TYPES = {
    # 3.7 calendar properties
    "CALSCALE": ("TEXT", (), False), "METHOD": ("TEXT", (), False),
    "PRODID": ("TEXT", (), False), "VERSION": ("TEXT", (), False),
    # 3.8.1 descriptive
    "ATTACH": ("URI", ("BINARY",), False),
    "CATEGORIES": ("TEXT", (), True), "CLASS": ("TEXT", (), False),
    "COMMENT": ("TEXT", (), False), "DESCRIPTION": ("TEXT", (), False),
    "GEO": ("GEO", (), False), "LOCATION": ("TEXT", (), False),
    "PERCENT-COMPLETE": ("INTEGER", (), False),
    "PRIORITY": ("INTEGER", (), False), "RESOURCES": ("TEXT", (), True),
    "STATUS": ("TEXT", (), False), "SUMMARY": ("TEXT", (), False),
    # 3.8.2 date and time
    "COMPLETED": ("DATE-TIME", (), False),
    "DTEND": ("DATE-TIME", ("DATE",), False),
    "DUE": ("DATE-TIME", ("DATE",), False),
    "DTSTART": ("DATE-TIME", ("DATE",), False),
    "DURATION": ("DURATION", (), False),
    "FREEBUSY": ("PERIOD", (), True), "TRANSP": ("TEXT", (), False),
    # 3.8.3 time zone
    "TZID": ("TEXT", (), False), "TZNAME": ("TEXT", (), False),
    "TZOFFSETFROM": ("UTC-OFFSET", (), False),
    "TZOFFSETTO": ("UTC-OFFSET", (), False), "TZURL": ("URI", (), False),
    # 3.8.4 relationship
    "ATTENDEE": ("CAL-ADDRESS", (), False), "CONTACT": ("TEXT", (), False),
    "ORGANIZER": ("CAL-ADDRESS", (), False),
    "RECURRENCE-ID": ("DATE-TIME", ("DATE",), False),
    "RELATED-TO": ("TEXT", (), False), "URL": ("URI", (), False),
    "UID": ("TEXT", (), False),
    # 3.8.5 recurrence
    "EXDATE": ("DATE-TIME", ("DATE",), True),
    "RDATE": ("DATE-TIME", ("DATE", "PERIOD"), True),
    "RRULE": ("RECUR", (), False),
    # 3.8.6 alarm
    "ACTION": ("TEXT", (), False), "REPEAT": ("INTEGER", (), False),
    "TRIGGER": ("DURATION", ("DATE-TIME",), False),
    # 3.8.7 change management
    "CREATED": ("DATE-TIME", (), False), "DTSTAMP": ("DATE-TIME", (), False),
    "LAST-MODIFIED": ("DATE-TIME", (), False),
    "SEQUENCE": ("INTEGER", (), False),
    # 3.8.8 miscellaneous
    "REQUEST-STATUS": ("TEXT", (), False),
    # RFC 9074
    "ACKNOWLEDGED": ("DATE-TIME", (), False),
}

# Which RFC value types a codec class of the repository decodes.  The classes
# are named after the RFC value types (vDate = DATE ...); combined decoders get
# the union of the decoders they dispatch to (computed by the checker from
# vDDDTypes.from_ical, not listed here).
CLASS_VALUE_TYPE = {
    "vText": "TEXT", "vUri": "URI", "vCalAddress": "CAL-ADDRESS",
    "vInt": "INTEGER", "vFloat": "FLOAT", "vBoolean": "BOOLEAN",
    "vBinary": "BINARY", "vGeo": "GEO", "vDate": "DATE",
    "vDatetime": "DATE-TIME", "vTime": "TIME", "vDuration": "DURATION",
    "vPeriod": "PERIOD", "vUTCOffset": "UTC-OFFSET", "vRecur": "RECUR",
    "vCategory": "TEXT-LIST",
}

# RFC 5545 3.3.10 + RFC 7529 4.1/4.2: RECUR rule part -> value kind
RECUR_PARTS = {
    "FREQ": "frequency", "UNTIL": "date-or-date-time", "COUNT": "integer",
    "INTERVAL": "integer", "BYSECOND": "integer", "BYMINUTE": "integer",
    "BYHOUR": "integer", "BYDAY": "weekdaynum", "BYMONTHDAY": "integer",
    "BYYEARDAY": "integer", "BYWEEKNO": "integer", "BYMONTH": "month",
    "BYSETPOS": "integer", "WKST": "weekday", "RSCALE": "text",
    "SKIP": "skip",
}
RECUR_KIND_CLASS = {
    "frequency": {"vFrequency"}, "date-or-date-time": {"vDDDTypes"},
    "integer": {"vInt"}, "weekdaynum": {"vWeekday"}, "weekday": {"vWeekday"},
    "month": {"vMonth"}, "text": {"vText"}, "skip": {"vSkip"},
}
FREQUENCIES = ["SECONDLY", "MINUTELY", "HOURLY", "DAILY", "WEEKLY", "MONTHLY",
               "YEARLY"]
WEEKDAYS = ["SU", "MO", "TU", "WE", "TH", "FR", "SA"]
SKIP_VALUES = ["OMIT", "BACKWARD", "FORWARD"]

# ABNF of RFC 5545 as regexes over ASCII
RFC_DUR_VALUE = (r"[+-]?P(?:[0-9]+W|[0-9]+D(?:T(?:[0-9]+H(?:[0-9]+M(?:[0-9]+S)?)?"
                 r"|[0-9]+M(?:[0-9]+S)?|[0-9]+S))?|T(?:[0-9]+H(?:[0-9]+M(?:[0-9]+S)?)?"
                 r"|[0-9]+M(?:[0-9]+S)?|[0-9]+S))")
# weekdaynum = [[plus / minus] ordwk] weekday ; ordwk = 1*2DIGIT (1 to 53)
RFC_WEEKDAYNUM = r"(?:[+-]?(?:[1-9]|[1-4][0-9]|5[0-3]))?(?:SU|MO|TU|WE|TH|FR|SA)"
# 3.1: a fold is CRLF followed by one SP or HTAB; lenient readers accept a bare
# LF and several consecutive line breaks before the single white space.
UNFOLD_SPEC = "(\r?\n)+[ \t]"
FOLD_FORMS = ["\r\n ", "\r\n\t", "\n ", "\n\t"]
LINE_BREAKS = ["\r\n", "\n"]

# text lengths of the fixed-width forms (RFC 5545 3.3.4, 3.3.5, 3.3.12)
LEN_DATE = 8
LEN_DATETIME = (15, 16)
LEN_TIME = (6, 7)

# Properties whose value MUST be UTC (3.8.7.1, 3.8.7.2, 3.8.7.3; RFC 9074 6.1)
UTC_ONLY = ["DTSTAMP", "CREATED", "LAST-MODIFIED", "ACKNOWLEDGED"]
# Properties whose DATE-TIME may carry TZID (3.8.2.2, 3.8.2.3, 3.8.2.4,
# 3.8.4.4, 3.8.5.1, 3.8.5.2)
TZID_ADMITTING = ["DTSTART", "DTEND", "DUE", "RECURRENCE-ID", "RDATE", "EXDATE"]

# 3.2: param-value quoting: these characters force DQUOTE
MUST_QUOTE = [",", ";", ":"]

# 3.6: component name <-> BEGIN/END value
COMPONENT_NAMES = ["VCALENDAR", "VEVENT", "VTODO", "VJOURNAL", "VFREEBUSY",
                   "VTIMEZONE", "STANDARD", "DAYLIGHT", "VALARM"]
