"""E9 - bounded exhaustive abstract execution of the text layer (parser.py)
over the character-class quotient.

The functions of the text layer treat characters only through comparisons
with constants, membership in constant strings, and the character classes of
a handful of module-level regular expressions.  All characters that no such
test distinguishes behave alike, so a string over one representative per
class stands for every string of the same class pattern.  The representatives
are taken from the source on every run (constants and regex classes of the
analysed modules); the functions are interpreted by E7 (sa.absint) - the
repository code is never imported or run - on *every* string up to a length
bound over the representatives relevant to the position (parameter value,
property value, name), and the results are compared with the laws of the
property statements and with an independent RFC 5545 reading of the emitted
text.

Characters whose treatment is decided algebraically by the transducer rules
(backslash and '%', E4) are left to those rules: the domains here exclude
them, so the two engines do not report the same defect twice.
"""
from __future__ import annotations

import ast
import itertools
import re
import re._parser as sre_parse
import re._constants as SC

from .core import AnalysisError
from .core import model_token
from .absint import (is_opaque, Interp, Obj, ClassVal, AbsRaise, Unsupported, Native, Closure)

TEXT_MODULES = ("parser", "parser_tools")


# ---------------------------------------------------------------------------
def distinguished_chars(model):
    """Characters the text layer can tell apart: every character of every
    short str/bytes constant and every literal / range end of every regex of
    the text modules (plus the neighbours of range ends)."""
    out = set()
    patterns = []
    for short in TEXT_MODULES:
        mod = model.module(short)
        for n in ast.walk(mod.tree):
            if isinstance(n, ast.Call) and isinstance(n.func, ast.Attribute) \
                    and n.func.attr == "compile" and n.args \
                    and isinstance(n.args[0], ast.Constant):
                patterns.append(n.args[0].value)
            elif isinstance(n, ast.Constant) and isinstance(n.value, (str, bytes)):
                v = n.value.decode("latin-1") if isinstance(n.value, bytes) else n.value
                if len(v) <= 12 and "\n " not in v[1:-1]:
                    out.update(v)
            elif isinstance(n, ast.Constant) and isinstance(n.value, int) \
                    and not isinstance(n.value, bool) and 0x7F <= n.value <= 0x10FFFF:
                # a code point threshold (ord(ch) < 0x800 ...): the boundary and its neighbours
                for c in (n.value - 1, n.value, n.value + 1):
                    if 0 <= c <= 0x10FFFF and not 0xD800 <= c <= 0xDFFF:
                        out.add(chr(c))
    for p in patterns:
        if isinstance(p, bytes):
            p = p.decode("latin-1")
        try:
            tree = sre_parse.parse(p)
        except re.error:
            continue

        def walk(seq):
            for op, arg in seq:
                if op is SC.LITERAL or op is SC.NOT_LITERAL:
                    out.add(chr(arg))
                elif op is SC.IN:
                    for iop, iarg in arg:
                        if iop is SC.LITERAL:
                            out.add(chr(iarg))
                        elif iop is SC.RANGE:
                            lo, hi = iarg
                            for c in (lo, hi, lo - 1, hi + 1, (lo + hi) // 2):
                                if 0 <= c < 0x110000:
                                    out.add(chr(c))
                        elif iop is SC.CATEGORY:
                            out.update(RX_CATEGORY_CHARS.get(str(iarg).lower(), ""))
                elif op is SC.CATEGORY:
                    out.update(RX_CATEGORY_CHARS.get(str(arg).lower(), ""))
                elif op is SC.ANY:
                    out.add("\n")
                elif op is SC.BRANCH:
                    for alt in arg[1]:
                        walk(list(alt))
                elif op is SC.SUBPATTERN:
                    walk(list(arg[3]))
                elif op in (SC.MAX_REPEAT, SC.MIN_REPEAT):
                    walk(list(arg[2]))
        walk(list(tree))
    out |= library_chars(model)
    return out


# characters that library calls treat specially without naming them in the source
LIB_LINE_BOUNDARIES = "\n\r\v\f\x1c\x1d\x1e\x85\u2028\u2029"
LIB_WHITESPACE = " \t\n\r\v\f\x1c\x1f\x85\xa0\u2028\u3000"
LIB_CHARS = {
    "splitlines": LIB_LINE_BOUNDARIES,
    "isspace": LIB_WHITESPACE, "strip()": LIB_WHITESPACE, "lstrip()": LIB_WHITESPACE,
    "rstrip()": LIB_WHITESPACE, "split()": LIB_WHITESPACE, "rsplit()": LIB_WHITESPACE,
    "isdigit": "0\u0663\u00b2", "isdecimal": "0\u0663\u00b2", "isnumeric": "0\u0663\u00b2\u00bd",
    "int": "0\u0663", "float": "0\u0663",
    "isalpha": "a\u00e9\u0663_", "isalnum": "a\u00e9\u0663_",
    "isascii": "\x7f\x80", "expandtabs": "\t",
    "isupper": "A\u00c9", "islower": "a\u00e9",
}
RX_CATEGORY_CHARS = {"category_space": LIB_WHITESPACE, "category_not_space": LIB_WHITESPACE,
                     "category_digit": "0\u0663\u00b2", "category_not_digit": "0\u0663\u00b2",
                     "category_word": "a\u00e9\u0663_-", "category_not_word": "a\u00e9\u0663_-"}


def library_chars(model):
    """Characters that builtins used by the text layer distinguish although the
    source never writes them: the line boundaries of str.splitlines(), the
    white space of strip()/split()/isspace(), non-ASCII digits for
    isdigit()/int(), the Unicode classes behind \\s \\d \\w and '.'."""
    out = set()
    for short in TEXT_MODULES:
        mod = model.module(short)
        for n in ast.walk(mod.tree):
            # constants imported from the standard library (codecs.BOM_UTF8, string.whitespace, ...)
            names = []
            if isinstance(n, ast.ImportFrom) and n.module in ("codecs", "string"):
                names = [(n.module, a.name) for a in n.names]
            elif isinstance(n, ast.Attribute) and isinstance(n.value, ast.Name) and n.value.id in ("codecs", "string"):
                names = [(n.value.id, n.attr)]
            for modname, nm in names:
                v = getattr(__import__(modname), nm, None)
                if isinstance(v, bytes):
                    try:
                        v = v.decode("utf-8")
                    except UnicodeDecodeError:
                        v = v.decode("latin-1")
                if isinstance(v, str) and len(v) <= 16:
                    out.update(v)
            if isinstance(n, ast.Call) and isinstance(n.func, ast.Attribute):
                a = n.func.attr
                if a in LIB_CHARS:
                    out.update(LIB_CHARS[a])
                if not n.args and not n.keywords and a + "()" in LIB_CHARS:
                    out.update(LIB_CHARS[a + "()"])
            elif isinstance(n, ast.Call) and isinstance(n.func, ast.Name) and n.func.id in ("int", "float") \
                    and n.args:
                out.update(LIB_CHARS[n.func.id])
    return out


GENERIC = ["a", "A", "0", "_", "é", "É", "€", "\U0001F600", "!", "~"]


# ---------------------------------------------------------------------------
class TextInterp(Interp):
    """E7 with nothing stubbed: the text layer is interpreted as written."""

    def run(self, f, args, kwargs=None):
        self.steps = 0
        return self.call(f, list(args), dict(kwargs or {}))


def _s(v):
    if isinstance(v, Obj) and v.strval is not None:
        return v.strval
    return v


def _params_dict(it, p):
    """Parameters Obj -> plain dict NAME -> str | [str]."""
    out = {}
    for k, v in p.items.items():
        if isinstance(v, (list, tuple)):
            out[k] = [_s(x) for x in v]
        else:
            out[k] = _s(v)
    return out


def mk_params(it, model, d, ordered=None):
    p = it.instantiate(model.cls("parser.Parameters"), [], {})
    for k in (ordered or list(d)):
        # through the mapping's own item assignment (names in any case)
        it.run(it.getattr(p, "__setitem__"), [k, d[k]], {})
    return p


def _flat(d):
    return "".join(x if isinstance(x, str) else "".join(x) for x in d.values())


def norm_value(v):
    """[x] and x denote the same parameter value on the wire."""
    if isinstance(v, (list, tuple)):
        v = [str(x) for x in v]
        return v[0] if len(v) == 1 else v
    return v


# --- independent RFC 5545 reading of a parameter string ---------------------
def rfc_split_params(text):
    """param *(';' param) with param = name '=' value *(',' value);
    value = DQUOTE *QSAFE DQUOTE / *SAFE.  Returns [(NAME, [values])] or None
    when the text is not of this grammar."""
    i, n = 0, len(text)
    out = []
    while True:
        j = i
        while j < n and (text[j].isalnum() or text[j] in "-_."):
            j += 1
        if j == i or j >= n or text[j] != "=":
            return None
        name = text[i:j]
        i = j + 1
        vals = []
        while True:
            if i < n and text[i] == '"':
                k = text.find('"', i + 1)
                if k < 0:
                    return None
                vals.append(text[i + 1:k])
                i = k + 1
            else:
                k = i
                while k < n and text[k] not in '",;:':
                    if ord(text[k]) < 0x20 and text[k] != "\t" or text[k] == "\x7f":
                        return None
                    k += 1
                vals.append(text[i:k])
                i = k
            if i < n and text[i] == ",":
                i += 1
                continue
            break
        out.append((name.upper(), vals))
        if i == n:
            return out
        if text[i] != ";":
            return None
        i += 1


# ---------------------------------------------------------------------------
def strings(alphabet, max_len):
    for n in range(0, max_len + 1):
        for t in itertools.product(alphabet, repeat=n):
            yield "".join(t)


class Findings:
    """Deviations grouped by (law, cause); within a group only the findings
    whose set of special input characters is minimal are kept: a finding
    for inputs containing a backslash covers 'backslash and comma', while a
    deviation that needs no backslash stays a finding of its own."""

    def __init__(self):
        self.groups = {}    # (law, cause) -> {frozenset(chars) | None: (size, detail)}
        self.n = 0

    def add(self, law, cause, chars=None, **detail):
        cs = None if chars is None else frozenset(
            c for c in chars if not (c.isalnum() and c.isascii()))
        g = self.groups.setdefault((law, cause), {})
        size = len(repr(detail))
        cur = g.get(cs)
        if cur is None or size < cur[0]:
            g[cs] = (size, detail)

    @property
    def items(self):
        out = {}
        for (law, cause), g in self.groups.items():
            sets = [k for k in g if k is not None]
            for k, (size, detail) in g.items():
                if k is None:
                    out[(law, cause)] = (size, detail)
                    continue
                if any(o < k for o in sets):
                    continue
                label = " ".join(_show_char(c) for c in sorted(k)) or "plain characters"
                out[(law, f"{cause} [input with {label}]")] = (size, detail)
        return out


def _show_char(c):
    return c if c.isprintable() and c != " " else ("SP" if c == " " else f"U+{ord(c):04X}")


def reader_patterns(model):
    """Multi-character sequences the reader rewrites (patterns of the replace
    chains applied on the read path): they are added to the explored strings
    whatever the length bound."""
    from . import fst
    out = []
    for q in ("parser.escape_string", "parser.unescape_string", "parser.unescape_char",
              "parser.escape_char"):
        f = model.func(q, required=False)
        if f is None:
            continue
        try:
            ch = fst.function_chains(model, f)
        except AnalysisError:
            continue
        for c in ch.values():
            for st in c.stages:
                p = getattr(st, "p", None)
                if isinstance(p, str) and p not in out:
                    out.append(p)
    return out


def param_alphabet(model):
    D = distinguished_chars(model)
    # parameter-value position: what dquote / QUOTABLE / UNSAFE / q_split / parts look at
    base = [c for c in sorted(D) if c in " ,;:='’\"^\t-."] + ["a", "A", "é"]
    ctrl = [c for c in sorted(D) if (ord(c) < 0x20 and c not in "\t\r\n") or c == "\x7f"][:2]
    return base, ctrl


def explore_params_extended(ctx):
    """C05: the same exploration with the characters the reader's placeholder
    scheme treats specially (backslash, '%') and its multi-character
    patterns included."""
    return explore_params(ctx, extended=True)


def explore_params(ctx, extended=False):
    """C08 (and the parameter part of C05): Parameters.to_ical / from_ical,
    alone and inside a content line."""
    model = ctx.model
    it = TextInterp(model)
    F = Findings()
    P = model.cls("parser.Parameters")
    CL = model.cls("parser.Contentline")
    to_unicode = Closure(model.func("parser_tools.to_unicode"))
    base, ctrl = param_alphabet(model)
    clean = [c for c in base if c != '"']
    extra_values = []
    if extended:
        D = distinguished_chars(model)
        clean += [c for c in ("\\", "%") if c in D]
        for p in reader_patterns(model):
            if '"' in p or any(ord(c) < 0x20 for c in p):
                continue
            extra_values += [p, "a" + p, p + "a", p + ";X=1", "a" + p + ":"]
    max_len = 3 if ctx.thorough else 2
    from_ical = it.getattr(ClassVal(P), "from_ical")
    from_parts = it.getattr(ClassVal(CL), "from_parts")

    def emit(params, srt=True):
        b = it.run(it.getattr(params, "to_ical"), [], {"sorted": srt})
        if not isinstance(b, bytes):
            raise Unsupported(f"Parameters.to_ical returned {b!r}")
        return b.decode("utf-8")

    def check_roundtrip(d, where, ordered=None, srt=True):
        """d: NAME -> str | [str] (domain: no DQUOTE, no control chars)."""
        F.n += 1
        want = {k.upper(): norm_value(v) for k, v in d.items()}
        try:
            params = mk_params(it, model, d, ordered)
            text = emit(params, srt)
        except AbsRaise as e:
            F.add("serialisable", f"Parameters.to_ical raises {e.cls_name} for a quote-free, "
                  f"control-free value", chars=_flat(d), params=d)
            return
        # (c) an independent reader splits the emitted text the same way
        ind = rfc_split_params(text) if d else []
        if ind is None:
            F.add("RFC grammar", "the emitted parameter text is not RFC 5545 param syntax "
                  "(a value containing , ; : must be inside double quotes)", chars=_flat(d),
                  params=d, emitted=text)
        else:
            got_ind = {k: norm_value(v) for k, v in ind}
            if got_ind != want:
                F.add("quoting", "a conforming parser splits the emitted parameter text differently",
                      chars=_flat(d), params=d, emitted=text, conforming_reading=got_ind)
            names = [k for k, _ in ind]
            exp_names = sorted(want) if srt else [k.upper() for k in (ordered or list(d))]
            if names != exp_names:
                F.add("order", f"parameters are emitted in the order {names}, expected "
                      f"{'sorted' if srt else 'insertion'} order {exp_names}", params=d, sorted=srt)
        # (a) the repo's own reader, stand-alone
        try:
            back = _params_dict(it, it.run(from_ical, [text], {}))
            back = {k: norm_value(v) for k, v in back.items()}
            if back != want:
                F.add("round trip", f"Parameters.from_ical(to_ical()) returns different "
                      f"parameters ({where})", chars=_flat(d), params=d, emitted=text, read_back=back)
        except AbsRaise as e:
            F.add("round trip", f"Parameters.from_ical rejects the text Parameters.to_ical "
                  f"produced ({e.cls_name})", chars=_flat(d), params=d, emitted=text)
        # (b) inside a content line
        try:
            line = it.run(from_parts, ["X-NAME", params, "v"], {"sorted": srt})
            name, p2, val = it.run(it.getattr(line, "parts"), [], {})
            back = {k: norm_value(v) for k, v in _params_dict(it, p2).items()}
            if _s(name) != "X-NAME" or _s(val) != "v":
                F.add("no injection", "name or value of the content line change with the "
                      "parameters", chars=_flat(d), params=d, line=_s(line), name=_s(name), value=_s(val))
            elif set(back) != set(want):
                F.add("no injection", "the parameters read back from the content line have other "
                      "names than the ones joined", chars=_flat(d), params=d, line=_s(line),
                      read_back=back)
            elif back != want:
                F.add("line round trip", "Contentline.from_parts(...).parts() returns different "
                      "parameter values", chars=_flat(d), params=d, line=_s(line), read_back=back)
        except AbsRaise as e:
            # C05 allows refusal; inside C08's domain (no DQUOTE, no controls,
            # none of the reader's escape characters) it is a lost parameter
            if d and not extended:
                F.add("line round trip", f"a content line with these parameters cannot be built "
                      f"or split ({e.cls_name})", chars=_flat(d), params=d)

    try:
        # single values: every string up to the bound
        for v in itertools.chain(strings(clean, max_len), extra_values):
            check_roundtrip({"K": v}, "single value")
        # lists: pairs and triples of short values; one-element list
        shorts = list(strings(clean, 1))
        for v1 in shorts:
            check_roundtrip({"K": [v1]}, "one-element list")
            for v2 in shorts:
                check_roundtrip({"K": [v1, v2]}, "two-element list")
        for v in ("a", "a,b", "a b", ":", ""):
            check_roundtrip({"K": [v, "x", v]}, "three-element list")
        # several parameters, names in any case, both orders, both sort modes
        for names in (("b", "A"), ("Zz", "aa", "M-1"), ("x.y", "X-Z")):
            for vals in (("1", "2;3", "q"), ("a b", "", ":")):
                d = dict(zip(names, vals))
                for srt in (True, False):
                    check_roundtrip(d, "several parameters", ordered=list(d), srt=srt)
                    check_roundtrip(d, "several parameters", ordered=list(reversed(list(d))), srt=srt)
        # values outside the domain: DQUOTE and control characters must be
        # refused or neutralised, never produce other parameters
        VU = model.cls("prop.vUri", required=False)
        for bad in ['"'] + ctrl:
            singles = [bad, "a" + bad, bad + "a", bad + ";X=1", "a" + bad + ",b", bad + ':' + bad]
            lists = [[bad + "a", "b" + bad], [bad, bad], ["a", bad + "b", "c"]]
            # line values: plain text, and a value type without escaping that holds a second quote
            values = [("v", "v")]
            if VU is not None:
                uri = 'http://a/' + bad + ';X-INJ=y:z'
                values.append((it.instantiate(VU, [uri], {}) if "\n" not in uri else None, uri))
            for pv in singles + lists:
                for val, val_text in values:
                    if val is None:
                        continue
                    F.n += 1
                    d = {"K": pv}
                    try:
                        params = mk_params(it, model, d)
                        line = it.run(from_parts, ["X-NAME", params, val], {})
                        name, p2, v2 = it.run(it.getattr(line, "parts"), [], {})
                        back = _params_dict(it, p2)
                        nvals = len(back.get("K")) if isinstance(back.get("K"), list) else 1
                        want_n = len(pv) if isinstance(pv, list) else 1
                        if set(back) != {"K"} or _s(name) != "X-NAME" or _s(v2) != val_text:
                            F.add("no injection", "a parameter value containing a double quote or a "
                                  "control character creates or renames parameters / moves the value",
                                  params=d, line=_s(line), read_back=back, value=_s(v2))
                        elif nvals != want_n:
                            F.add("no injection", "a parameter value list containing double quotes is read "
                                  "back with another number of values", params=d, line=_s(line),
                                  read_back=back)
                    except AbsRaise:
                        pass        # refused: allowed
        # the emitted text depends on the current content only (no stale state)
        for mutate in ("append to list value", "item assignment", "pop", "update", "setdefault", "clear"):
            F.n += 1
            try:
                p = mk_params(it, model, {"K": ["a", "b"], "L": "x"})
                emit(p)
                if mutate == "append to list value":
                    p.items["K"].append("c,d")
                    want = {"K": ["a", "b", "c,d"], "L": "x"}
                elif mutate == "item assignment":
                    it.run(it.getattr(p, "__setitem__"), ["l", "y;z"], {})
                    want = {"K": ["a", "b"], "L": "y;z"}
                elif mutate == "pop":
                    it.run(it.getattr(p, "pop"), ["K"], {})
                    want = {"L": "x"}
                elif mutate == "update":
                    it.run(it.getattr(p, "update"), [{"m": "1"}], {})
                    want = {"K": ["a", "b"], "L": "x", "M": "1"}
                elif mutate == "setdefault":
                    it.run(it.getattr(p, "setdefault"), ["n", "2"], {})
                    want = {"K": ["a", "b"], "L": "x", "N": "2"}
                else:
                    it.run(it.getattr(p, "clear"), [], {})
                    want = {}
                t2 = emit(p)
                t3 = emit(mk_params(it, model, want))
                if t2 != t3:
                    F.add("fresh", f"after {mutate} the parameters serialise as {t2!r}, a fresh mapping "
                          f"with the same content as {t3!r}", mutation=mutate)
            except AbsRaise as e:
                F.add("fresh", f"{mutate} then to_ical raises {e.cls_name}", mutation=mutate)
        # history independence: what was serialised before must not matter
        # (typed parameter values that compare equal across types: True == 1 == 1.0)
        typed = [("prop.vBoolean", True), ("prop.vInt", 1), ("prop.vFloat", 1.0), ("prop.vInt", 0),
                 ("prop.vBoolean", False), ("prop.vText", "1"), ("prop.vText", "TRUE"), (None, "1.0")]

        def typed_value(interp, cq, v):
            return v if cq is None else interp.instantiate(model.cls(cq), [v], {})

        def emit_in(interp, cq, v):
            p = interp.instantiate(P, [], {})
            interp.run(interp.getattr(p, "__setitem__"), ["K", typed_value(interp, cq, v)], {})
            b = interp.run(interp.getattr(p, "to_ical"), [], {})
            return b.decode("utf-8") if isinstance(b, bytes) else b
        for order in (typed, list(reversed(typed))):
            shared = TextInterp(model)
            for cq, v in order:
                F.n += 1
                try:
                    with_history = emit_in(shared, cq, v)
                    alone = emit_in(TextInterp(model), cq, v)
                except AbsRaise as e:
                    F.add("history", f"serialising a {cq or 'str'} parameter value raises {e.cls_name}",
                          value=repr(v))
                    continue
                if with_history != alone:
                    F.add("history", "the text of a parameter depends on what was serialised before "
                          "(values that compare equal across types share a cached result)",
                          value=f"{(cq or 'str').split('.')[-1]}({v!r})", after_others=with_history,
                          alone=alone)
        # what the reader returns is the caller's: editing it must not change a later parse
        for text in ('X;MEMBER="a","b":v', 'X;K=a,b;L=c:v', 'X;K="p q":v'):
            F.n += 1
            try:
                shared = TextInterp(model)
                n1, p1, v1 = shared.run(shared.getattr(shared.instantiate(CL, [text], {}), "parts"), [], {})
                before = {k: norm_value(v) for k, v in _params_dict(shared, p1).items()}
                for k, v in list(p1.items.items()):
                    if isinstance(v, list):
                        v.append("edited")
                    else:
                        p1.items[k] = "edited"
                n2, p2, v2 = shared.run(shared.getattr(shared.instantiate(CL, [text], {}), "parts"), [], {})
                after = {k: norm_value(v) for k, v in _params_dict(shared, p2).items()}
                if after != before:
                    F.add("history", "parsing the same content line again gives other parameters after the "
                          "first result was edited (parsed values are shared with a cache)",
                          line=text, first=before, second=after)
            except AbsRaise as e:
                F.add("history", f"parsing a content line twice raises {e.cls_name}", line=text)
        # reader side: quoted / unquoted forms, strictness
        for text, want in (('K="a,b"', {"K": "a,b"}), ('K="a","b"', {"K": ["a", "b"]}),
                           ('K=a,"b;c"', {"K": ["a", "b;c"]}), ('k=Abc', {"K": "Abc"}),
                           ('K=a;L="x:y"', {"K": "a", "L": "x:y"}), ('K=', {"K": ""})):
            F.n += 1
            try:
                back = _params_dict(it, it.run(from_ical, [text], {}))
                if {k: norm_value(v) for k, v in back.items()} != want:
                    F.add("reader", f"Parameters.from_ical({text!r}) returns {back}, RFC 5545 "
                          f"reading is {want}", text=text)
            except AbsRaise as e:
                F.add("reader", f"Parameters.from_ical({text!r}) raises {e.cls_name}", text=text)
        # the same value in every form a caller may supply it: a text-like property object as the
        # parameter value, and the parameters= argument of Component.add (empty text is a value)
        for value in ("plain", "Doe, John", "a;b:c", "", "x\\y" if extended else "y"):
            F.n += 1
            try:
                as_str = emit(mk_params(it, model, {"CN": value}))
                as_obj = emit(mk_params(it, model, {"CN": it.instantiate(model.cls("prop.vText"), [value], {})}))
                if as_obj != as_str:
                    F.add("round trip", "a parameter value given as a vText object is written differently "
                          "from the same text given as str", value=value, as_str=as_str, as_vtext=as_obj)
                ev = it.instantiate(model.cls("cal.Event"), [], {})
                it.run(it.getattr(ev, "add"), ["attendee", "mailto:x@example.com"], {"parameters": {"CN": value}})
                stored_ = ev.items.get("ATTENDEE")
                sp = _params_dict(it, stored_.attrs.get("params")) if isinstance(stored_, Obj) else None
                if sp is None or norm_value(sp.get("CN")) != norm_value(value):
                    F.add("round trip", "a parameter supplied through Component.add(..., parameters=) is not "
                          "stored on the value as given", value=value, stored=sp)
            except AbsRaise as e:
                F.add("serialisable", f"a parameter value {value!r} given as an object / through "
                      f"Component.add raises {e.cls_name}", value=value)
        for text in ('K=a"b', 'K=\x01', 'K="a\x7f"', ':=1', 'K K=1', '=1'):
            F.n += 1
            try:
                it.run(from_ical, [text], {})   # leniency is not a violation; the error class is
            except AbsRaise as e:
                if "ValueError" not in it.exc_bases(e.cls_name):
                    F.add("reader rejects", f"Parameters.from_ical({text!r}) raises {e.cls_name}, "
                          f"not ValueError", text=text)
    except Unsupported as e:
        raise AnalysisError(f"parameter model leaves the abstract interface: {e}")
    return F


PARAM_LAWS = ["serialisable", "RFC grammar", "quoting", "order", "round trip", "line round trip",
              "no injection", "fresh", "history", "reader", "reader rejects"]


# ---------------------------------------------------------------------------
def value_alphabet(model):
    D = distinguished_chars(model)
    base = [c for c in sorted(D) if c in ' ,;:="\'\t\r\n'] + ["a", "n", "N", "é"]
    return base


def explore_lines(ctx):
    """C05: from_parts / parts as inverse on (name, parameters, TEXT value);
    structure cannot be injected through the value."""
    model = ctx.model
    it = TextInterp(model)
    F = Findings()
    CL = model.cls("parser.Contentline")
    VT = model.cls("prop.vText")
    from_parts = it.getattr(ClassVal(CL), "from_parts")
    vtext_from = it.getattr(ClassVal(VT), "from_ical")
    alpha = value_alphabet(model)
    max_len = 3 if ctx.thorough else 2
    param_pool = [{}, {"K": "a"}, {"K": "a:b;c", "L": ["x", "y,z"]}]
    names = ["SUMMARY", "X-a.b", "x-1_"]

    def documented(t):
        return t.replace("\r\n", "\n")

    try:
        for t in strings(alpha, max_len):
            for pi, pd in enumerate(param_pool):
                if pi and len(t) > 2:
                    continue
                name = names[(len(t) + pi) % len(names)]
                F.n += 1
                try:
                    params = mk_params(it, model, pd)
                    vt = it.instantiate(VT, [t], {})
                    line = it.run(from_parts, [name, params, vt], {})
                except AbsRaise as e:
                    # refusing is allowed for values that cannot be represented;
                    # a TEXT value can always be (escaping), so this is a loss
                    F.add("serialisable", f"a content line for this TEXT value cannot be built "
                          f"({e.cls_name})", chars=t, value=t, params=pd)
                    continue
                ls = _s(line)
                if "\n" in ls or "\r" in ls and False:
                    F.add("no raw line break", "the joined content line contains a raw line break",
                          value=t, line=ls)
                try:
                    n2, p2, v2 = it.run(it.getattr(line, "parts"), [], {})
                except AbsRaise as e:
                    # "or the offending property alone is rejected when read back":
                    # nothing in a TEXT value is offending once escaped
                    F.add("readable", f"the joined content line is rejected when read back "
                          f"({e.cls_name})", chars=t, value=t, params=pd, line=ls)
                    continue
                back = {k: norm_value(v) for k, v in _params_dict(it, p2).items()}
                want = {k.upper(): norm_value(v) for k, v in pd.items()}
                if _s(n2) != name:
                    F.add("name", "the name read back differs from the one joined", name=name,
                          value=t, line=ls, read_name=_s(n2))
                if back != want:
                    F.add("parameters", "the value moves or creates parameters when read back",
                          value=t, params=pd, line=ls, read_params=back)
                try:
                    dec = _s(it.run(vtext_from, [v2], {}))
                except AbsRaise as e:
                    F.add("value", f"the value text read back does not decode ({e.cls_name})",
                          value=t, line=ls)
                    continue
                if dec != documented(t):
                    F.add("value", "the TEXT value read back differs from the one joined "
                          "(beyond CRLF -> LF)", value=t, line=ls, wire=_s(v2), decoded=dec)
        # a content line can never hold a raw line break, however it is made
        for text in ("A:b\nC:d", "A:b\n", "\nA:b", "A;K=x\ny:v"):
            F.n += 1
            try:
                o = it.instantiate(CL, [text], {})
                F.add("no raw line break", "a Contentline containing a raw LF can be constructed",
                      text=text)
            except AbsRaise:
                pass
        for text in ("A:b\r\nC:d", "A:b\n\nC:d"):
            F.n += 1
            try:
                o = it.run(it.getattr(ClassVal(CL), "from_ical"), [text], {})
                if "\n" in _s(o):
                    F.add("no raw line break", "Contentline.from_ical returns a line containing a "
                          "raw LF", text=text)
            except AbsRaise:
                pass
        # names that are not tokens are refused by the reader
        for bad in ("", "A B", "A\"", "A,B", "é:x", "A=B"):
            F.n += 1
            try:
                line = it.instantiate(CL, [bad + ":v"], {})
                it.run(it.getattr(line, "parts"), [], {})       # leniency is not a violation
            except AbsRaise as e:
                if "ValueError" not in it.exc_bases(e.cls_name):
                    F.add("token", f"parts() raises {e.cls_name} (not ValueError) for the name {bad!r}",
                          line=bad + ":v")
        # reader: delimiters inside quoted parameter values, value keeps later delimiters
        for text, want in (('A;K="x:y;z":v:w;u', ("A", {"K": "x:y;z"}, "v:w;u")),
                           ('A:v', ("A", {}, "v")), ('A;K=1;L=2:', ("A", {"K": "1", "L": "2"}, "")),
                           ('a.b-c;k=1:"q":r', ("a.b-c", {"K": "1"}, '"q":r')),
                           ('A;K="a,b",c:v', ("A", {"K": ["a,b", "c"]}, "v"))):
            F.n += 1
            try:
                n2, p2, v2 = it.run(it.getattr(it.instantiate(CL, [text], {}), "parts"), [], {})
                got = (_s(n2), {k: norm_value(v) for k, v in _params_dict(it, p2).items()}, _s(v2))
                if got != want:
                    F.add("reader", f"parts() of {text!r} gives {got}, RFC 5545 reading is {want}",
                          line=text)
            except AbsRaise as e:
                F.add("reader", f"parts() of the well-formed line {text!r} raises {e.cls_name}", line=text)
        for text in ("A", ";K=1:v", "A;:v", ":v"):
            F.n += 1
            try:
                it.run(it.getattr(it.instantiate(CL, [text], {}), "parts"), [], {})
            except AbsRaise as e:
                if "ValueError" not in it.exc_bases(e.cls_name):
                    F.add("reader rejects", f"parts() of {text!r} raises {e.cls_name}, not ValueError",
                          line=text)
    except Unsupported as e:
        raise AnalysisError(f"content-line model leaves the abstract interface: {e}")
    return F


def explore_wire(ctx):
    """C07 (and C05's injection clause) along the whole wire path: a TEXT value
    is joined into a content line, the line list is serialised to bytes
    (folding), the bytes are split into lines again, the line is split into
    parts and the value decoded.  Also raw str / bytes values (no codec object)
    and the items of a comma-separated list property (vCategory)."""
    model = ctx.model
    it = TextInterp(model)
    F = Findings()
    CL = model.cls("parser.Contentline")
    CLS = model.cls("parser.Contentlines")
    VT = model.cls("prop.vText")
    VC = model.cls("prop.vCategory")
    from_parts = it.getattr(ClassVal(CL), "from_parts")
    lines_from = it.getattr(ClassVal(CLS), "from_ical")
    vtext_from = it.getattr(ClassVal(VT), "from_ical")
    vcat_from = it.getattr(ClassVal(VC), "from_ical")
    alpha = value_alphabet(model)
    max_len = 3 if ctx.thorough else 2

    def documented(t):
        return t.replace("\r\n", "\n")

    def through_wire(name, value):
        """-> decoded text after join, serialise, split, parts, decode; or ('lines', n)."""
        params = mk_params(it, model, {})
        line = it.run(from_parts, [name, params, value], {})
        lst = it.instantiate(CLS, [[line, ""]], {})
        data = it.run(it.getattr(lst, "to_ical"), [], {})
        back = it._as_list(it.run(lines_from, [data], {}))
        logical = [x for x in back if _s(x) != ""]
        if len(logical) != 1:
            return ("lines", [_s(x)[:40] for x in logical])
        n2, p2, v2 = it.run(it.getattr(logical[0], "parts"), [], {})
        if _s(n2) != name or _params_dict(it, p2):
            return ("structure", _s(n2), _params_dict(it, p2))
        return ("value", v2)

    try:
        texts = list(strings(alpha, max_len))
        # longer values that cross a fold boundary next to white space and line breaks
        texts += ["a" * 60 + x + "b" * 30 for x in ("\r ", "\r\t", " ", "\t", "\r", "\n ", "\r\n ", " \r")]
        texts += ["x" * 66 + "\r" + " y", "BEGIN:VEVENT", "a\nEND:VCALENDAR\nBEGIN:VEVENT"]
        for t in texts:
            for kind in ("vText", "str", "bytes"):
                if kind != "vText" and len(t) > 2 and len(t) < 40:
                    continue
                F.n += 1
                try:
                    val = it.instantiate(VT, [t], {}) if kind == "vText" else (
                        t if kind == "str" else t.encode("utf-8"))
                    r = through_wire("SUMMARY", val)
                except AbsRaise as e:
                    F.add("wire", f"a TEXT value given as {kind} cannot be serialised and read back "
                          f"({e.cls_name})", chars=t if len(t) < 8 else None, value=t[:40], kind=kind)
                    continue
                if r[0] == "lines":
                    F.add("no injection", f"a TEXT value given as {kind} comes back as {len(r[1])} content "
                          f"lines", chars=t if len(t) < 8 else None, value=t[:40], lines=r[1])
                elif r[0] == "structure":
                    F.add("no injection", f"a TEXT value given as {kind} changes the name or creates "
                          f"parameters", chars=t if len(t) < 8 else None, value=t[:40], name=r[1], params=r[2])
                else:
                    try:
                        dec = _s(it.run(vtext_from, [r[1]], {}))
                    except AbsRaise as e:
                        F.add("wire", f"the value text read back does not decode ({e.cls_name})",
                              value=t[:40], kind=kind)
                        continue
                    if dec != documented(t):
                        F.add("wire", f"a TEXT value given as {kind} is not restored by serialise and "
                              f"parse (beyond CRLF -> LF)", chars=t if len(t) < 8 else None,
                              value=t[:60], decoded=dec[:60])
        # comma-separated list property: items over the alphabet without the separator
        item_alpha = [c for c in alpha if c != ","]
        items = list(strings(item_alpha, 2 if not ctx.thorough else 2))
        seen = 0
        for a_ in items:
            for b_ in ("x", "", a_):
                F.n += 1
                seen += 1
                lst = [a_, b_]
                try:
                    cat = it.instantiate(VC, [list(lst)], {})
                    raw = it.run(it.getattr(cat, "to_ical"), [], {})
                    back = it.run(vcat_from, [raw], {})
                    got = [_s(x) for x in it._as_list(back)]
                except AbsRaise as e:
                    F.add("list", f"a list of TEXT items cannot be encoded and decoded ({e.cls_name})",
                          chars="".join(lst), items=lst)
                    continue
                want = [documented(x) for x in lst]
                if got != want:
                    F.add("list", "the items of a comma-separated TEXT list are not restored by the list "
                          "codec (beyond CRLF -> LF)", chars="".join(lst), items=lst, decoded=got)
                    continue
                # and through the wire as a CATEGORIES property
                try:
                    r = through_wire("CATEGORIES", cat)
                    if r[0] != "value":
                        F.add("no injection", "a TEXT list item creates content lines, parameters or "
                              "another name", chars="".join(lst), items=lst)
                        continue
                    got = [_s(x) for x in it._as_list(it.run(vcat_from, [r[1]], {}))]
                    if got != want:
                        F.add("list", "the items of a comma-separated TEXT list are not restored by "
                              "serialise and parse", chars="".join(lst), items=lst, decoded=got)
                except AbsRaise as e:
                    F.add("list", f"a CATEGORIES line cannot be serialised and read back ({e.cls_name})",
                          chars="".join(lst), items=lst)
    except Unsupported as e:
        raise AnalysisError(f"wire model leaves the abstract interface: {e}")
    return F


WIRE_LAWS = ["wire", "no injection", "list"]

LINE_LAWS = ["serialisable", "readable", "no raw line break", "name", "parameters", "value", "token",
             "reader", "reader rejects"]


# ---------------------------------------------------------------------------
def explore_physical(ctx):
    """C06 / C09: physical lines.  Contentlines.to_ical / from_ical and
    Contentline.to_ical / from_ical on logical lines of all fold-relevant
    shapes; invariance of the reader under the rewritings RFC 5545 declares
    insignificant."""
    model = ctx.model
    it = TextInterp(model)
    F = Findings()
    CL = model.cls("parser.Contentline")
    CLS = model.cls("parser.Contentlines")
    lines_from = it.getattr(ClassVal(CLS), "from_ical")
    line_from = it.getattr(ClassVal(CL), "from_ical")

    def logical(got):
        return [_s(x) for x in it._as_list(got)]

    pool = ["A:b", "X-LONG:" + "a" * 70, "N:" + "a" * 73 + " b" * 40, "U:" + "é" * 40 + " \t" + "€" * 30,
            "E:" + "\U0001F600" * 25, "S: " + " " * 80, "T:" + "a" * 72 + "\t\t" + "b" * 80,
            "M:" + ("a" * 74 + "é") * 3, "B:x" + "a" * 71 + " BEGIN:VEVENT", "Z:" + "a" * 148]
    # every non-ASCII character the text layer distinguishes (code point thresholds of a
    # width table, ...) gets lines of its own, alone and after an ASCII prefix of every
    # residue (so that each lands on a fold boundary)
    for c in sorted(ch for ch in distinguished_chars(model) if ord(ch) >= 0x80):
        pool.append("D:" + c * 60)
        pool.append("D:" + "a" * 70 + c * 12)
        pool.append("D:" + ("a" * 7 + c) * 20)
    # fold boundaries: every character of each width class (and the white space characters,
    # which a folder may treat specially) at every octet offset around the first and the
    # second fold point
    boundary = []
    # (incl. the first and last code point of every UTF-8 width class)
    samples = [" ", "\t", "é", "€", "\U0001F600", "\u0080", "\u07ff", "\u0800", "\uffff", "\U00010000",
               "\U0010FFFF"] + \
        sorted(ch for ch in distinguished_chars(model) if ord(ch) >= 0x80 and not 0xD800 <= ord(ch) <= 0xDFFF)
    seen_w = set()
    for c in samples:
        w = (len(c.encode("utf-8")), c if c in " \t" else "")
        edge = ord(c) in (0x80, 0x7FF, 0x800, 0xFFFF, 0x10000, 0x10FFFF)
        if w in seen_w and ord(c) < 0x80:
            continue
        if w in seen_w and not ctx.thorough and not edge and c not in distinguished_chars(model):
            continue
        seen_w.add(w)
        for r in list(range(66, 76)) + list(range(140, 151)) + ([214, 215, 216, 217, 218, 219, 220, 221, 222] if ctx.thorough else []):
            boundary.append("D:" + "a" * (r - 2) + c + "b" * 5 + c + "a" * 90)
            boundary.append("D:" + "a" * (r - 2) + c * 4 + "a" * 80)

    def check_physical(L, phys, how):
        """The fold laws on one serialised line."""
        parts = phys.split(b"\r\n")
        for i, ph in enumerate(parts):
            if len(ph) > 75:
                F.add("75 octets", f"a physical line is longer than 75 octets ({how})", line=L[:30] + "…",
                      octets=len(ph))
            try:
                ph.decode("utf-8")
            except UnicodeDecodeError:
                F.add("whole characters", f"a physical line is not valid UTF-8 on its own ({how})",
                      line=L[:30] + "…")
            if i and not ph.startswith(b" "):
                F.add("one space", f"a continuation line does not start with a space ({how})",
                      line=L[:30] + "…")
        if b"\n" in phys.replace(b"\r\n", b"") or b"\r" in phys.replace(b"\r\n", b""):
            F.add("CRLF", f"a bare CR or LF appears in the folded line ({how})", line=L[:30] + "…")
        # exact unfolding by the RFC rule
        try:
            if phys.replace(b"\r\n ", b"").decode("utf-8") != L:
                F.add("one space", f"removing each CRLF + one space does not restore the line ({how})",
                      line=L[:30] + "…")
        except UnicodeDecodeError:
            pass

    try:
        for n, L in enumerate(pool):
            F.n += 1
            cl = it.instantiate(CL, [L], {})
            phys = it.run(it.getattr(cl, "to_ical"), [], {})
            if not isinstance(phys, bytes):
                raise Unsupported(f"Contentline.to_ical returned {phys!r}")
            check_physical(L, phys, "Contentline(text).to_ical()")
            back = _s(it.run(line_from, [phys], {}))
            if back != L:
                F.add("unfold", "Contentline.from_ical(to_ical()) does not restore the line exactly",
                      line=L[:30] + "…", restored=back[:60])
            # the same line read from differently folded input and written again
            for width, ws in ((70, " "), (30, "\t")):
                F.n += 1
                wire = ("\r\n" + ws).join(L[i:i + width] for i in range(0, len(L), width)) or L
                try:
                    cl2 = it.run(line_from, [wire.encode("utf-8")], {})
                    if _s(cl2) != L:
                        F.add("unfold", "a line folded elsewhere (by characters) is not restored by "
                              "Contentline.from_ical", line=L[:30] + "…")
                        continue
                    phys2 = it.run(it.getattr(cl2, "to_ical"), [], {})
                    if not isinstance(phys2, bytes):
                        raise Unsupported(f"Contentline.to_ical returned {phys2!r}")
                    check_physical(L, phys2, "Contentline.from_ical(otherwise folded input).to_ical()")
                    if phys2 != phys:
                        F.add("emit", "a line read with Contentline.from_ical is serialised differently "
                              "from the same line constructed directly", line=L[:30] + "…")
                except AbsRaise as e:
                    F.add("unfold", f"Contentline.from_ical / to_ical raises {e.cls_name} on a line folded "
                          f"by characters", line=L[:30] + "…")
        for L, as_bytes in [(L, False) for L in boundary] + [(L, True) for L in boundary[::3]]:
            F.n += 1
            # a line object may be built from text or from its UTF-8 octets
            cl = it.instantiate(CL, [L.encode("utf-8") if as_bytes else L], {})
            phys = it.run(it.getattr(cl, "to_ical"), [], {})
            if not isinstance(phys, bytes):
                raise Unsupported(f"Contentline.to_ical returned {phys!r}")
            check_physical(L, phys, f"Contentline({'octets' if as_bytes else 'text'}).to_ical(), character "
                           f"at a fold boundary")
            try:
                back = _s(it.run(line_from, [phys], {}))
            except AbsRaise as e:
                F.add("unfold", f"Contentline.from_ical raises {e.cls_name} on the serialised line",
                      line=L[:30] + "…")
                continue
            if back != L:
                F.add("unfold", "Contentline.from_ical(to_ical()) does not restore the line exactly",
                      line=L[:30] + "…", restored=back[:60])
        # several lines
        for combo in ((0, 1), (1, 2, 3), (5, 0, 6), (8, 9)):
            F.n += 1
            Ls = [pool[i] for i in combo]
            lst = it.instantiate(CLS, [[it.instantiate(CL, [L], {}) for L in Ls] + [""]], {})
            data = it.run(it.getattr(lst, "to_ical"), [], {})
            if not isinstance(data, bytes) or not data.endswith(b"\r\n"):
                F.add("CRLF", "Contentlines.to_ical does not end with CRLF", lines=len(Ls))
                continue
            expect = b"".join(it.run(it.getattr(it.instantiate(CL, [L], {}), "to_ical"), [], {}) + b"\r\n"
                              for L in Ls)
            if data != expect:
                F.add("emit", "Contentlines.to_ical is not the folded lines, each terminated by CRLF",
                      lines=len(Ls))
            back = logical(it.run(lines_from, [data], {}))
            if back != Ls + [""]:
                F.add("unfold", "Contentlines.from_ical(to_ical()) does not restore the lines "
                      "(plus the empty terminator)", lines=[x[:20] for x in Ls],
                      restored=[x[:20] for x in back])
        # C09: insignificant rewritings
        base_lines = ["BEGIN:VEVENT", "SUMMARY:a b\tc", "X;K=\"q r\":" + "v" * 20, "END:VEVENT"]
        canon = "\r\n".join(base_lines) + "\r\n"
        want = logical(it.run(lines_from, [canon.encode("utf-8")], {}))
        if want != base_lines + [""]:
            F.add("reader", "Contentlines.from_ical does not return the logical lines plus the "
                  "empty terminator", got=want)
        # only CRLF / LF end a line, only CRLF + SPACE/HTAB is a fold: every other
        # character the text layer (or a builtin it calls) can tell apart stays in its line
        for c in sorted(distinguished_chars(model)):
            if c in "\r\n" or 0xD800 <= ord(c) <= 0xDFFF:
                continue
            for eol in ("\r\n", "\n"):
                F.n += 1
                text = f"A:x{c}y{eol}B:{c}{eol}C:z{c}{eol}"
                exp_lines = [f"A:x{c}y", f"B:{c}", f"C:z{c}", ""]
                for data, how in ((text.encode("utf-8"), "bytes"), (text, "str")):
                    try:
                        got = logical(it.run(lines_from, [data], {}))
                    except AbsRaise as e:
                        F.add("reader", f"Contentlines.from_ical raises {e.cls_name} on lines containing "
                              f"a character that is no line break", char=repr(c), input=how)
                        continue
                    if got != exp_lines:
                        F.add("reader", "Contentlines.from_ical splits or changes lines at a character "
                              "that is neither CRLF nor LF", char=repr(c), input=how,
                              got=[x[:12] for x in got][:6])
        variants = {
            "str instead of bytes": canon,
            "LF line ends": canon.replace("\r\n", "\n").encode(),
            "LF line ends (str)": canon.replace("\r\n", "\n"),
            "UTF-8 BOM": b"\xef\xbb\xbf" + canon.encode(),
            "BOM, LF": b"\xef\xbb\xbf" + canon.replace("\r\n", "\n").encode(),
            "trailing blank lines": (canon + "\r\n\r\n").encode(),
            "trailing blank lines (LF)": (canon.replace("\r\n", "\n") + "\n\n"),
            "blank line between": canon.replace("\r\nSUMMARY", "\r\n\r\nSUMMARY").encode(),
            "mixed line ends": canon.replace("\r\n", "\n", 2).encode(),
        }
        body = canon
        for pos in range(1, len(body) - 2):
            if body[pos] in "\r\n" or body[pos - 1] in "\r\n":
                continue
            for ws in (" ", "\t"):
                for eol in ("\r\n", "\n"):
                    variants[f"fold at {pos} with {eol!r}+{ws!r}"] = (body[:pos] + eol + ws + body[pos:]).encode()
        for label, data in variants.items():
            F.n += 1
            try:
                got = logical(it.run(lines_from, [data], {}))
            except AbsRaise as e:
                F.add("invariance", f"the reader raises {e.cls_name} on a rewriting RFC 5545 declares "
                      f"insignificant", rewriting=label.split(" at ")[0])
                continue
            if got != want:
                F.add("invariance", "the logical lines change under a rewriting RFC 5545 declares "
                      "insignificant", rewriting=label if " at " not in label else
                      "fold " + label.split(" with ")[1], example=label)
    except Unsupported as e:
        raise AnalysisError(f"physical-line model leaves the abstract interface: {e}")
    return F


def explore_component_lines(ctx):
    """C06 end to end: properties of every value family added through the API - text, a
    text list, a number with a long non-ASCII parameter, an address, a binary-free inline
    value - and the component serialised by Component.to_ical (nothing stubbed): every
    physical line obeys the fold laws and unfolding gives back the content lines."""
    model = ctx.model
    F = Findings()
    cases = [
        ("SUMMARY (text)", "summary", "é" * 100, None),
        ("CATEGORIES (text list)", "categories", ["é" * 30, "€" * 30, "a" * 30, "\U0001F600" * 12], None),
        ("PRIORITY (number) with a non-ASCII parameter", "priority", 5, {"X-NOTE": "ü" * 80}),
        ("ATTENDEE (address) with non-ASCII CN", "attendee", "mailto:" + "a" * 50, {"CN": "Jörg " * 15}),
        ("ATTENDEE (non-ASCII address)", "attendee", "mailto:" + "é" * 80, None),
        ("X- property (default text) given bytes", "x-note", ("€" * 40).encode("utf-8"), None),
        ("SEQUENCE (number) with an astral parameter", "sequence", 7, {"X-FACE": "\U0001F600" * 25}),
    ]
    for label, name, value, params in cases:
        it = TextInterp(model)
        F.n += 1
        try:
            ev = it.instantiate(model.cls("cal.Event"), [], {})
            kw = {"parameters": params} if params else {}
            it.run(it.getattr(ev, "add"), [name, value], kw)
            data = it.run(it.getattr(ev, "to_ical"), [], {})
            if not isinstance(data, bytes) or is_opaque(data):
                raise Unsupported(f"Component.to_ical returned {type(data).__name__}")
            lines = it._as_list(it.run(it.getattr(ev, "content_lines"), [], {}))
            logical = [_s(x) for x in lines if _s(x) != ""]
        except AbsRaise as e:
            F.add("emit", f"an Event with {label} cannot be serialised ({e.cls_name})", property=label)
            continue
        except Unsupported as e:
            raise AnalysisError(f"component serialisation leaves the abstract interface on {label}: {e}")
        phys = data.split(b"\r\n")
        for ph in phys:
            if len(ph) > 75:
                F.add("75 octets", f"an Event with {label} is serialised with a physical line of "
                      f"{len(ph)} octets", property=label)
            try:
                ph.decode("utf-8")
            except UnicodeDecodeError:
                F.add("whole characters", f"an Event with {label}: a physical line is not valid UTF-8 on "
                      f"its own", property=label)
        try:
            unfolded = data.replace(b"\r\n ", b"").decode("utf-8").split("\r\n")
            if [u for u in unfolded if u] != logical:
                F.add("one space", f"an Event with {label}: removing each CRLF + one space does not give "
                      f"back the content lines", property=label)
        except UnicodeDecodeError:
            pass
    return F


COMPONENT_LAWS = ["75 octets", "whole characters", "one space", "emit"]


PHYS_LAWS = ["75 octets", "whole characters", "one space", "CRLF", "unfold", "emit", "reader", "invariance"]


# ---------------------------------------------------------------------------
_CACHE = {}


def report(ctx, rule, fn, laws, loc, floor, select=None, known_laws=None):
    key = (model_token(ctx.model), fn.__name__, ctx.thorough)
    if key not in _CACHE:
        _CACHE[key] = fn(ctx)
    F = _CACHE[key]
    if F.n < floor:
        raise AnalysisError(f"{rule}: only {F.n} cases explored (floor {floor})")
    failed = set()
    for (law, cause), (_, detail) in sorted(F.items.items()):
        if select is not None and not select(law):
            continue
        failed.add(law)
        ctx.fail(rule, f"{law}: {cause}"[:150],
                 f"{cause} ({', '.join(f'{k}={v!r}' for k, v in detail.items())[:600]})", loc,
                 witness={k: (v if isinstance(v, (str, int, bool, list, dict)) else repr(v))
                          for k, v in detail.items()})
    for law in laws:
        if select is not None and not select(law):
            continue
        if law not in failed:
            ctx.ok(rule, law, loc, detail=f"{F.n} cases over the character-class quotient")
    ctx.extra[fn.__name__ + "_cases"] = F.n
    return F
